"""
C09 finding 2: construct_repetition_code_circuit_simplified(qec_cycles=0): the exported circuit has no QEC
cycle (correct), but after apply_modifiers() (unrolling) one full QEC cycle appears: the ancillas are measured
once and (with refocusing) every data qubit is flipped, so the final data values are the complement of the
prepared state. The property requires the same record before and after unrolling, for all cycles >= 0.
Run:  cd /tmp/hunt-C09 && PYTHONPATH=/tmp/hunt-C09/src /venv/bin/python hunt_C09_2.py
"""
import sys, io, contextlib, warnings
warnings.filterwarnings('ignore')
from qce_circuit.language import InitialStateContainer, InitialStateEnum
from qce_circuit.library.repetition_code.circuit_components import RepetitionCodeDescription
from qce_circuit.library.repetition_code.circuit_constructors import construct_repetition_code_circuit_simplified
from qce_circuit.addon_stim import to_stim

Z, O = InitialStateEnum.ZERO, InitialStateEnum.ONE


def quiet(f, *a, **k):
    with contextlib.redirect_stderr(io.StringIO()), contextlib.redirect_stdout(io.StringIO()):
        return f(*a, **k)


def labelled_record(sc):
    labels = [t.value for inst in sc.flattened() if inst.name == 'M' for t in inst.targets_copy()]
    rec = sc.compile_sampler().sample(1)[0].astype(int)
    return list(zip(labels, [int(v) for v in rec]))


data_bits = [1, 0, 1]
description = RepetitionCodeDescription.from_chain(length=5)
initial_state = InitialStateContainer.from_ordered_list([O if b else Z for b in data_bits])

circuit = quiet(construct_repetition_code_circuit_simplified, qec_cycles=0, description=description, initial_state=initial_state)
before = quiet(to_stim, circuit)
after = quiet(to_stim, quiet(circuit.apply_modifiers))
rec_before, rec_after = labelled_record(before), labelled_record(after)
print("qec_cycles=0, data prepared in", data_bits)
print("record (qubit, value) as constructed    :", rec_before)
print("record (qubit, value) after unrolling    :", rec_after)
print("required: identical records; no ancilla measurement, final data == prepared state", data_bits)
violation = rec_before != rec_after
if violation:
    final_after = [v for q, v in rec_after if q in (0, 2, 4)][-3:]
    print(f"VIOLATION: unrolling changed the record: {len(rec_after) - len(rec_before)} extra (ancilla) measurements, "
          f"final data values {final_after} instead of {data_bits}")
sys.exit(1 if violation else 0)
