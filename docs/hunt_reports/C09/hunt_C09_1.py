"""
C09 finding 1: DeclarativeCircuit.flatten() on a (not yet unrolled) repetition-code circuit silently drops
QEC cycles. The property requires the protocol record and the (d-1)(cycles+1) detectors "equally after ...
flattening".
Run:  cd /tmp/hunt-C09 && PYTHONPATH=/tmp/hunt-C09/src /venv/bin/python hunt_C09_1.py
"""
import sys, io, contextlib, warnings
warnings.filterwarnings('ignore')
from qce_circuit.language import InitialStateContainer, InitialStateEnum
from qce_circuit.library.repetition_code.circuit_components import RepetitionCodeDescription
from qce_circuit.library.repetition_code.circuit_constructors import construct_repetition_code_circuit
from qce_circuit.addon_stim import to_stim

Z, O = InitialStateEnum.ZERO, InitialStateEnum.ONE


def quiet(f, *a, **k):
    with contextlib.redirect_stderr(io.StringIO()), contextlib.redirect_stdout(io.StringIO()):
        return f(*a, **k)


def per_qubit_record(sc):
    labels = [t.value for inst in sc.flattened() if inst.name == 'M' for t in inst.targets_copy()]
    rec = sc.compile_sampler().sample(1)[0].astype(int)
    out = {}
    for q, v in zip(labels, rec):
        out.setdefault(q, []).append(int(v))
    return out


violations = 0
d, cycles = 3, 6
data_bits = [1, 0, 0]
description = RepetitionCodeDescription.from_chain(length=2 * d - 1)
initial_state = InitialStateContainer.from_ordered_list([O if b else Z for b in data_bits])

plain = quiet(to_stim, quiet(construct_repetition_code_circuit, qec_cycles=cycles, description=description, initial_state=initial_state))
flat = quiet(to_stim, quiet(quiet(construct_repetition_code_circuit, qec_cycles=cycles, description=description, initial_state=initial_state).flatten))
unrolled_flat = quiet(to_stim, quiet(quiet(quiet(construct_repetition_code_circuit, qec_cycles=cycles, description=description, initial_state=initial_state).apply_modifiers).flatten))

exp_meas = (2 * d - 1) + (d - 1) * cycles + d
exp_det = (d - 1) * (cycles + 1)
print(f"d={d}, qec_cycles={cycles}, data initial state {data_bits}")
print(f"required : {exp_meas} measurements, {exp_det} detectors")
for name, sc in [('as constructed', plain), ('apply_modifiers().flatten()', unrolled_flat), ('flatten() only', flat)]:
    rec = per_qubit_record(sc)
    print(f"{name:30s}: {sc.num_measurements} measurements, {sc.num_detectors} detectors; "
          f"ancilla q1 record {rec[1]}, final data {[rec[q][-1] for q in (0, 2, 4)]}")

rec_plain, rec_flat = per_qubit_record(plain), per_qubit_record(flat)
if flat.num_measurements != exp_meas or flat.num_detectors != exp_det:
    print(f"VIOLATION: after flatten() the exported circuit runs {len(rec_flat[1]) - 1} QEC cycles instead of {cycles} "
          f"({flat.num_detectors} detectors instead of {exp_det})")
    violations += 1
if [rec_flat[q][-1] for q in (0, 2, 4)] != [rec_plain[q][-1] for q in (0, 2, 4)]:
    print(f"VIOLATION: final data values after flatten() {[rec_flat[q][-1] for q in (0, 2, 4)]} differ from the protocol values "
          f"{[rec_plain[q][-1] for q in (0, 2, 4)]} (number of refocusing flips changed parity)")
    violations += 1
sys.exit(1 if violations else 0)
