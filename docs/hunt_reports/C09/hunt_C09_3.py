"""
C09 finding 3 (low confidence, probably "by design" of the simplified variant):
construct_repetition_code_circuit_simplified does not run the protocol of the statement:
 (a) no heralding measurements, no detectors / observable,
 (b) data refocusing flips are applied in EVERY cycle, including the last one, so for odd qec_cycles the final
     data values are the complement of what construct_repetition_code_circuit yields for the same input,
 (c) d=1 (chain length 1) raises NoReferenceOperationException although the full constructor supports d=1.
Run:  cd /tmp/hunt-C09 && PYTHONPATH=/tmp/hunt-C09/src /venv/bin/python hunt_C09_3.py
"""
import sys, io, contextlib, warnings
warnings.filterwarnings('ignore')
from qce_circuit.language import InitialStateContainer, InitialStateEnum
from qce_circuit.library.repetition_code.circuit_components import RepetitionCodeDescription
from qce_circuit.library.repetition_code.circuit_constructors import (
    construct_repetition_code_circuit, construct_repetition_code_circuit_simplified,
)
from qce_circuit.addon_stim import to_stim

Z, O = InitialStateEnum.ZERO, InitialStateEnum.ONE


def quiet(f, *a, **k):
    with contextlib.redirect_stderr(io.StringIO()), contextlib.redirect_stdout(io.StringIO()):
        return f(*a, **k)


def final_data(sc, data_indices):
    labels = [t.value for inst in sc.flattened() if inst.name == 'M' for t in inst.targets_copy()]
    rec = sc.compile_sampler().sample(1)[0].astype(int)
    last = {}
    for q, v in zip(labels, rec):
        last[q] = int(v)
    return [last[q] for q in data_indices]


violations = 0
data_bits = [1, 0, 1]
description = RepetitionCodeDescription.from_chain(length=5)
initial_state = InitialStateContainer.from_ordered_list([O if b else Z for b in data_bits])
for cycles in (1, 2, 3):
    full = quiet(to_stim, quiet(construct_repetition_code_circuit, cycles, description, initial_state))
    simp = quiet(to_stim, quiet(construct_repetition_code_circuit_simplified, cycles, description, initial_state))
    f_full, f_simp = final_data(full, [0, 2, 4]), final_data(simp, [0, 2, 4])
    required = [b ^ ((cycles - 1) % 2) for b in data_bits]
    print(f"qec_cycles={cycles}: required final data {required} (flips in every cycle but the last); full constructor {f_full}; "
          f"simplified {f_simp}; simplified detectors={simp.num_detectors}, heralding measurements={simp.num_measurements - 2 * cycles - 3}")
    if f_simp != required:
        violations += 1
try:
    quiet(construct_repetition_code_circuit_simplified, 1, RepetitionCodeDescription.from_chain(length=1), InitialStateContainer.from_ordered_list([O]))
    print("d=1 simplified: constructed")
except Exception as e:
    print("d=1 simplified: raises", repr(e), "(full constructor handles d=1)")
    violations += 1
if violations:
    print("VIOLATION: simplified constructor deviates from the prescribed record (final data values / missing heralding and detectors)")
sys.exit(1 if violations else 0)
