"""
hunt_C13_1: empty rounds list (boundary of "all lists of distinct round counts >= 0").

The circuit constructor accepts qec_cycles=[] and builds a legal (calibration-only) experiment with
6 acquisitions per ancilla (heralded/final for states 0, 1, 2). The experiment index kernel cannot be
constructed for the same rounds list (IndexError in __init__), so it returns no calibration indices and
no cycle length for an experiment the circuit side does describe.
Run: cd /tmp/hunt-C13 && PYTHONPATH=/tmp/hunt-C13/src /venv/bin/python hunt_C13_1.py
"""
import sys, io, contextlib
from collections import defaultdict
from qce_circuit.library.repetition_code.circuit_constructors import construct_repetition_code_multi_round_circuit
from qce_circuit.library.repetition_code.circuit_components import RepetitionCodeDescription
from qce_circuit.language import InitialStateContainer
from qce_circuit.language.intrf_declarative_circuit import InitialStateEnum
from qce_circuit.structure.acquisition_indexing.kernel_repetition_code import RepetitionExperimentKernel
from qce_circuit.structure.intrf_acquisition_operation import IAcquisitionOperation, AcquisitionTag

rounds = []
description = RepetitionCodeDescription.from_chain(length=3)  # distance 2
initial_state = InitialStateContainer.from_ordered_list([InitialStateEnum.ZERO, InitialStateEnum.ONE])

with contextlib.redirect_stderr(io.StringIO()):
    circuit = construct_repetition_code_multi_round_circuit(qec_cycles=rounds, description=description, initial_state=initial_state)
ancilla = description.ancilla_qubit_ids[0]
index = description.get_index(ancilla)
print(f"circuit, rounds={rounds}: ancilla {ancilla} (channel {index})")
print("  all acquisition indices :", list(circuit.get_acquisition_indices(index)))
print("  'heralded' indices      :", list(circuit.get_acquisition_indices(AcquisitionTag(index, 'heralded'))))
print("  'final' indices         :", list(circuit.get_acquisition_indices(AcquisitionTag(index, 'final'))))
print("required: kernel cycle length 6, heralded calibration indices [0, 2, 4], projected calibration indices [1, 3, 5]")

violated = False
try:
    kernel = RepetitionExperimentKernel(
        rounds=rounds, heralded_initialization=True, qutrit_calibration_points=True,
        involved_data_qubit_ids=description.data_qubit_ids, involved_ancilla_qubit_ids=description.ancilla_qubit_ids,
        experiment_repetitions=1,
    )
    print("kernel cycle length:", kernel.kernel_cycle_length)
    violated = kernel.kernel_cycle_length != len(circuit.get_acquisition_indices(index))
except Exception as e:
    print(f"observed: RepetitionExperimentKernel(rounds=[]) raises {type(e).__name__}: {e}")
    violated = True
try:
    RepetitionExperimentKernel.estimate_experiment_repetitions(rounds=rounds, heralded_initialization=True, qutrit_calibration_points=True, dataset_size=6)
except Exception as e:
    print(f"observed: estimate_experiment_repetitions(rounds=[], dataset_size=6) raises {type(e).__name__}: {e}")

sys.exit(1 if violated else 0)
