"""
hunt_C13_2: long rounds lists (>= ~250 distinct round counts) exhaust the interpreter recursion limit
inside the index kernel, because every RepetitionIndexKernel computes its start index by recursing
through all preceding kernels (RelativeIndexStrategy -> stop_index -> start_index -> ...).
The kernel then returns neither indices nor a cycle length. (Kernel side only: the matching circuit has
>= 31 000 QEC rounds and is not practical to construct here; the library's own kernel test uses 60 rounds.)
Run: cd /tmp/hunt-C13 && PYTHONPATH=/tmp/hunt-C13/src /venv/bin/python hunt_C13_2.py
"""
import sys
from qce_circuit.structure.acquisition_indexing.kernel_repetition_code import RepetitionExperimentKernel
from qce_circuit.connectivity import QubitIDObj

data = [QubitIDObj('D0'), QubitIDObj('D2')]
ancilla = [QubitIDObj('D1')]
violated = False
print("recursion limit:", sys.getrecursionlimit())
for n in (60, 240, 250, 300):
    rounds = list(range(n))  # distinct round counts >= 0
    # closed form of what the circuit produces per ancilla: (1 heralded + max(r, 1)) per block + 6 calibration
    required_cycle_length = sum(1 + max(r, 1) for r in rounds) + 6
    try:
        kernel = RepetitionExperimentKernel(
            rounds=rounds, heralded_initialization=True, qutrit_calibration_points=True,
            involved_data_qubit_ids=data, involved_ancilla_qubit_ids=ancilla, experiment_repetitions=1,
        )
        print(f"len(rounds)={n}: kernel cycle length {kernel.kernel_cycle_length}, required {required_cycle_length}")
        violated |= kernel.kernel_cycle_length != required_cycle_length
    except RecursionError as e:
        print(f"len(rounds)={n}: RecursionError ({e}); required cycle length {required_cycle_length}")
        violated = True
sys.exit(1 if violated else 0)
