"""
hunt_C10_1: repetition-code circuit double-books the ancilla read-out channel when the global duration
configuration (config_default_operation_durations.yaml) is changed after `qce_circuit` was imported.

Sequence (order of calls):
  1. import qce_circuit                       -> every operation class captures the configured durations
                                                 (GlobalDurationStrategy default instances, read at import).
  2. the user edits the global duration config (read-out 2.0 -> 1.2; all values stay positive).
  3. construct_repetition_code_circuit(...)   -> GlobalDecouplingWaitDurationStrategy() is instantiated NOW and
                                                 reads the config again (default_factory=read_config).
Result: Wait-Rx180-Wait on the data qubits is sized for the NEW read-out duration (1.2), the ancilla measurement
still lasts the OLD read-out duration (2.0); the closing Barrier follows the last Wait and starts 0.8 before
the measurement ends.

The tracked config file of the checkout is not touched: the yaml root (public module constant
qce_circuit.utilities.readwrite_yaml.YAML_ROOT) is pointed at a scratch directory holding the edited copy,
which is what editing <repo>/config_default_operation_durations.yaml in a live session does.
"""
import sys, os, itertools, tempfile, warnings
warnings.filterwarnings('ignore')
import yaml
import qce_circuit  # step 1: import, operation durations are captured here
from qce_circuit.utilities import readwrite_yaml
from qce_circuit.structure.registry_duration import GlobalDurationRegistryManager, GlobalRegistryKey
from qce_circuit.structure.circuit_operations import Barrier
from qce_circuit.language import InitialStateContainer, InitialStateEnum
from qce_circuit.library.repetition_code import construct_repetition_code_circuit, construct_repetition_code_circuit_simplified


def overlaps(circuit, tol=1e-9):
    ops = [(op, op.start_time, op.start_time + op.duration, op.duration, op.channel_identifiers) for op in circuit.operations]
    found = []
    for (a, sa, ea, da, ca), (b, sb, eb, db, cb) in itertools.combinations(ops, 2):
        if (da <= 0 and type(a) is not Barrier) or (db <= 0 and type(b) is not Barrier):
            continue
        if not any(x == y for x in ca for y in cb):
            continue
        if min(ea, eb) - max(sa, sb) > tol:
            found.append((type(a).__name__, str(a.channel_identifiers[0]), sa, ea, type(b).__name__, sb, eb))
    return found


before = GlobalDurationRegistryManager.read_config()
print("configured at import :", {k.name: before.get_registry_at(k) for k in GlobalRegistryKey})

# step 2: edit the configuration (scratch copy)
scratch = tempfile.mkdtemp()
with open(os.path.join(scratch, GlobalDurationRegistryManager.CONFIG_NAME), 'w') as f:
    yaml.dump({'_global_registry': {
        GlobalRegistryKey.READOUT.value: 1.2,
        GlobalRegistryKey.MICROWAVE.value: 1.0,
        GlobalRegistryKey.FLUX.value: 1.0,
        GlobalRegistryKey.RESET.value: 2.0,
    }}, f)
readwrite_yaml.YAML_ROOT = scratch
after = GlobalDurationRegistryManager.read_config()
print("configured afterwards:", {k.name: after.get_registry_at(k) for k in GlobalRegistryKey})

# step 3: construct
initial_state = InitialStateContainer.from_ordered_list([InitialStateEnum.ZERO, InitialStateEnum.ONE])
exit_code = 0
for constructor in (construct_repetition_code_circuit, construct_repetition_code_circuit_simplified):
    circuit = constructor(qec_cycles=3, initial_state=initial_state)
    for label in ('as constructed', 'repetitions unrolled'):
        c = circuit if label == 'as constructed' else circuit.apply_modifiers()
        found = overlaps(c)
        print(f"{constructor.__name__} [{label}]: {len(found)} overlapping pair(s) on a common qubit channel")
        for item in found[:3]:
            print("    ", item)
        if found:
            exit_code = 1
print("Required by C10: 0 overlapping pairs (no operation may overlap a barrier on one of the barrier's qubits; "
      "no two non-zero operations may share a channel in time), whatever the configured durations are.")
sys.exit(exit_code)
