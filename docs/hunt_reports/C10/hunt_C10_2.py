"""
hunt_C10_2 (weak candidate, legality of the input is debatable - see HUNT_REPORT.md):
construct_repetition_code_circuit_simplified double-books the ancilla when one gate-sequence layer of the chain
description holds both gates of that ancilla. construct_repetition_code_circuit serialises the same input.

GateSequenceLayer / GenericSurfaceCode / RepetitionCodeDescription.from_connectivity accept the layer without complaint.
"""
import sys, itertools, warnings
warnings.filterwarnings('ignore')
from qce_circuit.connectivity.intrf_channel_identifier import QubitIDObj as Q, EdgeIDObj as E
from qce_circuit.connectivity.generic_gate_sequence import GenericSurfaceCode
from qce_circuit.connectivity.intrf_connectivity_gate_sequence import GateSequenceLayer, Operation
from qce_circuit.connectivity.connectivity_surface_code import ParityGroup, StabilizerType
from qce_circuit.language import InitialStateContainer, InitialStateEnum
from qce_circuit.library.repetition_code import (
    RepetitionCodeDescription, construct_repetition_code_circuit, construct_repetition_code_circuit_simplified,
)
from qce_circuit.structure.circuit_operations import Barrier
from qce_circuit.structure.registry_duration import temporary_override_get_registry_at, GlobalRegistryKey


def overlaps(circuit, tol=1e-9):
    ops = [(op, op.start_time, op.start_time + op.duration, op.duration, op.channel_identifiers) for op in circuit.operations]
    found = []
    for (a, sa, ea, da, ca), (b, sb, eb, db, cb) in itertools.combinations(ops, 2):
        if (da <= 0 and type(a) is not Barrier) or (db <= 0 and type(b) is not Barrier):
            continue
        common = [x for x in ca if any(x == y for y in cb)]
        if common and min(ea, eb) - max(sa, sb) > tol:
            found.append((type(a).__name__, sa, ea, type(b).__name__, sb, eb, str(common[0])))
    return found


connectivity = GenericSurfaceCode(
    gate_sequences=[GateSequenceLayer(
        _park_operations=[],
        _gate_operations=[Operation.type_gate(E(Q('Z1'), Q('D4'))), Operation.type_gate(E(Q('Z1'), Q('D5')))],
    )],
    parity_group_z=[ParityGroup(StabilizerType.STABILIZER_Z, Q('Z1'), [Q('D4'), Q('D5')])],
    parity_group_x=[],
)
description = RepetitionCodeDescription.from_connectivity([Q('D4'), Q('Z1'), Q('D5')], connectivity)
initial_state = InitialStateContainer.from_ordered_list([InitialStateEnum.ONE, InitialStateEnum.ZERO])
durations = {GlobalRegistryKey.READOUT: 2.0, GlobalRegistryKey.MICROWAVE: 1.0, GlobalRegistryKey.FLUX: 1.0, GlobalRegistryKey.RESET: 2.0}
exit_code = 0
with temporary_override_get_registry_at(durations):
    for constructor in (construct_repetition_code_circuit, construct_repetition_code_circuit_simplified):
        circuit = constructor(qec_cycles=2, description=description, initial_state=initial_state)
        found = overlaps(circuit)
        print(f"{constructor.__name__}: {len(found)} overlapping pair(s) as constructed")
        for item in found[:4]:
            print("    ", item)
        if found:
            exit_code = 1
print("Required by C10: 0 overlapping pairs for every chain description.")
sys.exit(exit_code)
