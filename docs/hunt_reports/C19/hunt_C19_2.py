"""
C19 finding 2 (interpretation dependent): channel identifiers that MATCH (==) do not hash
equal, so every hash based use of the matching relation disagrees with it -- in particular
the library's own order preserving de-duplication `unique_in_order`, which the library applies
to ChannelIdentifier lists (CircuitGraphBranch.channel_identifiers,
DeclarativeCircuit.occupied_qubit_channels: "Array-like of unique channel identifiers").

Property clauses: "two qubit-channel identifiers match exactly when they name the same qubit and
... at least one of them names all channels" + "order-preserving de-duplication keeps the first
occurrence of every element".  With "element" read through the identifiers' own equality, the
result of the de-duplication still contains a later element that equals an earlier one, and the
outcome of `x in collection` depends on whether the collection is a list or a set.
"""
import sys
from qce_circuit import DeclarativeCircuit
from qce_circuit.structure.circuit_operations import Wait
from qce_circuit.structure.intrf_circuit_operation import ChannelIdentifier, QubitChannel
from qce_circuit.utilities.array_manipulation import unique_in_order

q_all = ChannelIdentifier(0)                            # default channel: ALL
q_mw = ChannelIdentifier(0, QubitChannel.MICROWAVE)

print(f"q_all == q_mw: {q_all == q_mw}, q_mw == q_all: {q_mw == q_all}")
print(f"hash equal: {hash(q_all) == hash(q_mw)}")
print(f"q_mw in [q_all]: {q_mw in [q_all]}   q_mw in {{q_all}}: {q_mw in {q_all}}")
dedup = unique_in_order([q_all, q_mw, q_all, q_mw])
print(f"unique_in_order([ALL, MW, ALL, MW]) -> {dedup}")

circuit = DeclarativeCircuit()
circuit.add(Wait(0))                                      # occupies (0, ALL)
circuit.add(Wait(0, qubit_channel=QubitChannel.MICROWAVE))  # occupies (0, MW)
occupied = circuit.occupied_qubit_channels
print(f"occupied_qubit_channels -> {occupied}")
pairs = [(i, j) for i in range(len(occupied)) for j in range(i + 1, len(occupied)) if occupied[i] == occupied[j]]
print(f"index pairs of 'unique' identifiers that are == : {pairs}")
print("Required (== reading): a de-duplicated list holds no two elements that compare equal; matching")
print("identifiers should be found in sets/dicts just as they are in lists (equal => equal hash).")

violated = (q_all == q_mw and hash(q_all) != hash(q_mw)) and (len(dedup) != 1 or pairs)
if violated:
    print("VIOLATION: matching identifiers hash differently; hash based de-duplication keeps matching duplicates")
    sys.exit(1)
print("no violation")
