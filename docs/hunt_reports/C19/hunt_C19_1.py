"""
C19 finding 1: EdgeIDObj equality is not symmetric and not hash-consistent when one
edge names the same qubit twice (EdgeIDObj(A, A) versus EdgeIDObj(A, B)).

Property clause: "Edge identifiers are equal and hash equal regardless of the order of
their two qubits" / identifier matching is an identity relation (symmetric; equal => equal hash).
Public API only: EdgeIDObj(qubit_id0, qubit_id1) and EdgeIDObj.from_qubit_ids(...) accept any
two qubit identifiers ("Arbitrary edge qubit-ID"), no validation that they differ.
"""
import sys
from qce_circuit.connectivity.intrf_channel_identifier import QubitIDObj, EdgeIDObj
from qce_circuit.utilities.array_manipulation import unique_in_order

A, B = QubitIDObj('A'), QubitIDObj('B')
loop = EdgeIDObj(A, A)                       # same as EdgeIDObj.from_qubit_ids('A', 'A')
edge = EdgeIDObj.from_qubit_ids('A', 'B')

fwd = (loop == edge)
bwd = (edge == loop)
same_hash = hash(loop) == hash(edge)
print(f"EdgeIDObj(A,A) == EdgeIDObj(A,B): {fwd}")
print(f"EdgeIDObj(A,B) == EdgeIDObj(A,A): {bwd}")
print(f"hash equal: {same_hash}")
print(f"EdgeIDObj(A,A) != EdgeIDObj(A,B): {loop != edge};  reversed: {edge != loop}")
print(f"list membership  loop in [edge]: {loop in [edge]};  edge in [loop]: {edge in [loop]};  set membership  edge in {{loop}}: {edge in {loop}}")
print(f"unique_in_order([edge, loop]) -> {unique_in_order([edge, loop])}  (second element '==' first one, still kept)")
print("Required: the two edges name different qubit pairs ({A} vs {A,B}), so they must be unequal in both")
print("          directions; in any case equality must be symmetric and equal edges must hash equal.")

violated = (fwd != bwd) or (fwd and not same_hash) or fwd
if violated:
    print("VIOLATION: asymmetric equality / equal-but-different-hash for edge identifiers")
    sys.exit(1)
print("no violation")
