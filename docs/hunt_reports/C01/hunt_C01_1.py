"""
C01 finding 1: the relation of a sub-circuit is silently dropped by DeclarativeCircuit.add / add_sub_circuit /
add_declarative_circuit when it references an (earlier) operation of the circuit it is added to.
Clause: "FOLLOWED_BY starts when the referenced operation ends, JOINED_START starts when it starts,
JOINED_END ends when it ends" (for an add-sub-circuit call with a relation to an earlier operation).
"""
import sys, warnings
from qce_circuit.language.declarative_circuit import DeclarativeCircuit
from qce_circuit.structure.circuit_operations import Wait
from qce_circuit.structure.intrf_circuit_operation import RelationLink, RelationType
from qce_circuit.structure.registry_duration import FixedDurationStrategy

def wait(q, d, **kw):
    return Wait(q, duration_strategy=FixedDurationStrategy(d), **kw)

violations = 0
for entry in ('add', 'add_sub_circuit', 'add_declarative_circuit'):
    for relation_type in RelationType:
        circuit = DeclarativeCircuit()
        circuit.add(wait(0, 2.0))
        x = circuit.add(wait(0, 5.0))                       # x: [2, 7] on qubit 0
        sub = DeclarativeCircuit(relation=RelationLink(x, relation_type))   # documented constructor argument
        sub.add(wait(1, 1.0))
        sub.add(wait(1, 2.0))                               # sub-circuit duration 3 (qubit 1, does not share a channel with x)
        with warnings.catch_warnings(record=True) as caught:
            warnings.simplefilter('always')
            if entry == 'add':
                added = circuit.add(sub)
            elif entry == 'add_sub_circuit':
                added = circuit.add_sub_circuit(sub.circuit_structure)
            else:
                added = circuit.add_declarative_circuit(sub)
        required = {RelationType.FOLLOWED_BY: x.end_time, RelationType.JOINED_START: x.start_time, RelationType.JOINED_END: x.end_time - 3.0}[relation_type]
        first_inner = added.decomposed_operations()[0]
        ok = abs(added.start_time - required) < 1e-9 and abs(first_inner.start_time - required) < 1e-9
        print(f"{entry:24s} {relation_type.name:12s} sub-circuit start: observed {added.start_time}, required {required}; "
              f"first inner operation start: observed {first_inner.start_time}, required {required}; "
              f"reference after add: {added.relation_link.reference_node}; warnings: {len(caught)} -> {'ok' if ok else 'VIOLATION'}")
        violations += 0 if ok else 1
print(f"violations: {violations}")
sys.exit(1 if violations else 0)
