"""
C01 finding 7: the "latest" reference of a multi-relation link (used for unrolled repetitions) treats end times within a
RELATIVE tolerance of 1e-9 as equal and then prefers the later listed one. For large absolute times this is far more than
floating-point rounding (1e-3 at t = 1e6, one ulp there is 1.2e-10): the next repetition follows the operation that ends
EARLIER and starts before the previous repetition has ended.
Clause: "FOLLOWED_BY starts when the referenced operation ends ... after repetitions are unrolled" (duration assignment with large values).
"""
import sys
from qce_circuit.language.declarative_circuit import DeclarativeCircuit
from qce_circuit.structure.circuit_operations import Wait
from qce_circuit.structure.registry_duration import FixedDurationStrategy
from qce_circuit.structure.registry_repetition import FixedRepetitionStrategy

def wait(q, d, **kw):
    return Wait(q, duration_strategy=FixedDurationStrategy(d), **kw)

body = DeclarativeCircuit(repetition_strategy=FixedRepetitionStrategy(2))
body.add(wait(1, 1_000_000.0005))        # e.g. a 1 ms idle expressed in ns, plus half a ps
body.add(wait(0, 1_000_000.0))
circuit = DeclarativeCircuit()
circuit.add(body)
unrolled = circuit.apply_modifiers()
ops = unrolled.operations
first_end = max(op.end_time for op in ops[:2])
second_start = min(op.start_time for op in ops[2:])
for op in ops:
    print(f"  q{op.qubit_index}: [{op.start_time!r}, {op.end_time!r}]")
print(f"first repetition ends {first_end!r}; second repetition starts {second_start!r} (required {first_end!r}); difference {first_end - second_start:.3e}")
sys.exit(1 if second_start < first_end - 1e-9 else 0)
