"""
C01 finding 6: CircuitCompositeOperation is a value-comparing (and value-hashing) dataclass; its graph field always
compares equal, so two sub-circuits with the same relation-link object and repetition strategy are `==` and hash alike.
All DeclarativeCircuit() instances share ONE default relation link (default argument `RelationLink.no_relation()` is
evaluated once), so their structures are equal as long as they keep that link. When a circuit that contains two such
sub-circuits is copied (added to another circuit as sub-circuit, or repeated), the copy lookup table
(relation_transfer_lookup, a dict keyed by operation) merges them and relations to the first sub-circuit are transferred to
the copy of the second one.
Clause: "FOLLOWED_BY starts when the referenced operation ends ... the same equations hold through nesting".
"""
import sys
from qce_circuit.language.declarative_circuit import DeclarativeCircuit
from qce_circuit.structure.circuit_operations import Wait
from qce_circuit.structure.intrf_circuit_operation import RelationLink, RelationType
from qce_circuit.structure.registry_duration import FixedDurationStrategy

def wait(q, d, **kw):
    return Wait(q, duration_strategy=FixedDurationStrategy(d), **kw)

sub_a = DeclarativeCircuit(); sub_a.add(wait(0, 1.0))          # duration 1, qubit 0
sub_b = DeclarativeCircuit(); sub_b.add(wait(1, 5.0))          # duration 5, qubit 1
print("distinct sub-circuit structures compare equal:", sub_a.circuit_structure == sub_b.circuit_structure)

block = DeclarativeCircuit()
a = block.add_operation(sub_a.circuit_structure)               # first on qubit 0 -> circuit start, keeps its link
b = block.add_operation(sub_b.circuit_structure)               # first on qubit 1 -> circuit start, keeps its link
y = block.add(wait(2, 1.0, relation=RelationLink(a, RelationType.FOLLOWED_BY)))   # required start 1
z = block.add(wait(3, 1.0, relation=RelationLink(b, RelationType.FOLLOWED_BY)))   # required start 5
print(f"in block:            y (FOLLOWED_BY sub_a) starts {y.start_time}, z (FOLLOWED_BY sub_b) starts {z.start_time}")

top = DeclarativeCircuit()
top.add(block)                                                  # block is copied
ops = {op.qubit_index: op for op in top.operations}
print(f"block nested in top: y (FOLLOWED_BY sub_a) starts {ops[2].start_time} (required 1.0), z starts {ops[3].start_time} (required 5.0)")
print(f"                     y's reference ends {ops[2].relation_link.reference_node.end_time}, sub_a copy ends {ops[0].end_time}")
sys.exit(1 if abs(ops[2].start_time - 1.0) > 1e-9 or abs(ops[3].start_time - 5.0) > 1e-9 else 0)
