"""
C01 finding 5: the frame of a nested sub-circuit is handed down lazily (only when the operations are listed, or when
something is added to the enclosing composite after it received its relation). A nested sub-circuit obtained through
DeclarativeCircuit.composite_operations (which does not list operations) reports times relative to 0 instead of relative
to its enclosing sub-circuit, and the reported value changes once `circuit.operations` has been read.
Clause: "no relation starts with its enclosing (sub-)circuit ... the same equations hold through nesting".
"""
import sys
from qce_circuit.language.declarative_circuit import DeclarativeCircuit
from qce_circuit.structure.circuit_operations import Wait
from qce_circuit.structure.registry_duration import FixedDurationStrategy

def wait(q, d, **kw):
    return Wait(q, duration_strategy=FixedDurationStrategy(d), **kw)

inner = DeclarativeCircuit()
inner.add(wait(0, 1.0))
sub = DeclarativeCircuit()
sub.add(inner)                           # first entry of sub, no relation: starts with sub
sub.add(wait(0, 2.0))
circuit = DeclarativeCircuit()
circuit.add(wait(0, 5.0))                # [0, 5] on qubit 0
circuit.add(sub)                         # shares qubit 0 -> FOLLOWED_BY: sub = [5, 8]

outer_copy, inner_copy = circuit.composite_operations
before = (inner_copy.start_time, inner_copy.end_time)
print(f"sub-circuit: [{outer_copy.start_time}, {outer_copy.end_time}]")
print(f"nested sub-circuit before listing operations: {before}   (required: starts with its enclosing sub-circuit at {outer_copy.start_time})")
_ = circuit.operations
after = (inner_copy.start_time, inner_copy.end_time)
print(f"nested sub-circuit after reading circuit.operations: {after}")
sys.exit(1 if abs(before[0] - outer_copy.start_time) > 1e-9 or before != after else 0)
