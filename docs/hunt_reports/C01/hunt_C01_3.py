"""
C01 finding 3: when repetitions are unrolled, repetition k+1 is scheduled after the latest-ending LEAF of the relation
graph of repetition k, not after the latest-ending operation. If the operation that ends last has a JOINED_START /
JOINED_END child (so it is not a leaf), the next repetition starts while the previous one is still running
(on the same qubit channel), and the unrolled sub-circuit reports a duration smaller than repetitions x body.
Clause: "the same equations hold through nesting and after repetitions are unrolled".
"""
import sys
from qce_circuit.language.declarative_circuit import DeclarativeCircuit
from qce_circuit.structure.circuit_operations import Wait
from qce_circuit.structure.intrf_circuit_operation import RelationLink, RelationType
from qce_circuit.structure.registry_duration import FixedDurationStrategy
from qce_circuit.structure.registry_repetition import FixedRepetitionStrategy

def wait(q, d, **kw):
    return Wait(q, duration_strategy=FixedDurationStrategy(d), **kw)

body = DeclarativeCircuit(repetition_strategy=FixedRepetitionStrategy(3))
a = body.add(wait(0, 10.0))                                              # [0, 10] on qubit 0
b = body.add(wait(1, 1.0, relation=RelationLink(a, RelationType.JOINED_START)))   # [0, 1] on qubit 1
print(f"body duration before unrolling: {body.duration}")
circuit = DeclarativeCircuit()
circuit.add(body)
z = circuit.add(wait(0, 1.0))                                            # follows the repeated sub-circuit
print(f"before unrolling: follower starts {z.start_time}")
unrolled = circuit.apply_modifiers()
q0 = sorted((op.start_time, op.end_time) for op in unrolled.operations if op.qubit_index == 0 and op is not z)
print("after unrolling, qubit 0 operations of the three repetitions:", q0)
print("required                                                    :", [(0.0, 10.0), (10.0, 20.0), (20.0, 30.0)])
print(f"follower: observed start {z.start_time}, required 30.0; circuit duration observed {unrolled.duration}, required 31.0")
overlap = any(q0[i + 1][0] < q0[i][1] - 1e-9 for i in range(len(q0) - 1))
print(f"repetitions overlap on qubit 0: {overlap}")
sys.exit(1 if overlap or abs(z.start_time - 30.0) > 1e-9 else 0)
