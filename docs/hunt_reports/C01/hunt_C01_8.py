"""
C01 finding 8 (no value reported at all): start times are evaluated by recursion through the relation chain. Every add()
clears the memo, so asking the LAST operation of a back-to-back chain for its start time right after building recurses
through the whole chain and raises RecursionError (works for 300, fails for 400 operations at the default recursion limit 1000), far below the
documented graph limit MAX_GRAPH_DEPTH = 5000. `circuit.duration` (which walks the graph from the root and fills the memo)
works, and afterwards the same query succeeds: the reported value depends on the order of observation.
Clause: "the reported start and end time of every operation is the unique solution of its scheduling relation" (boundary size, order of calls).
"""
import sys
from qce_circuit.language.declarative_circuit import DeclarativeCircuit
from qce_circuit.structure.circuit_operations import Wait
from qce_circuit.structure.registry_duration import FixedDurationStrategy

n = 400
circuit = DeclarativeCircuit()
for _ in range(n):
    last = circuit.add(Wait(0, duration_strategy=FixedDurationStrategy(1.0)))
failed = False
try:
    print(f"{n} back-to-back operations: last.start_time = {last.start_time}")
except RecursionError as error:
    failed = True
    print(f"{n} back-to-back operations: last.start_time raises RecursionError ({error}); required {n - 1}.0")
print(f"circuit.duration = {circuit.duration}")
print(f"after circuit.duration was read: last.start_time = {last.start_time}")
sys.exit(1 if failed else 0)
