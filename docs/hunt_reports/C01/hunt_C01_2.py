"""
C01 finding 2: a sub-circuit with a JOINED_END relation reports start = reference.end - duration, but the operations
inside it are not placed in that frame: every relation-less (first) inner operation receives a duplicate of the
JOINED_END link and ends with the reference itself, so it does not start with its enclosing sub-circuit, and the
inner operations run past the end the sub-circuit reports.
Clause: "no relation starts with its enclosing (sub-)circuit" / "the same equations hold through nesting".
"""
import sys
from qce_circuit.language.declarative_circuit import DeclarativeCircuit
from qce_circuit.structure.circuit_operations import Wait
from qce_circuit.structure.intrf_circuit_operation import RelationLink, RelationType
from qce_circuit.structure.registry_duration import FixedDurationStrategy

def wait(q, d, **kw):
    return Wait(q, duration_strategy=FixedDurationStrategy(d), **kw)

violations = 0

# (a) DeclarativeCircuit API only: a circuit that is scheduled JOINED_END to an operation of another circuit
main = DeclarativeCircuit()
x = main.add(wait(0, 5.0))                                  # x: [0, 5]
sub = DeclarativeCircuit(relation=RelationLink(x, RelationType.JOINED_END))
a = sub.add(wait(1, 1.0))                                   # no relation: starts with sub
b = sub.add(wait(1, 2.0))                                   # no relation, shares channel: FOLLOWED_BY a
print(f"(a) sub: start {sub.start_time} duration {sub.duration} end {sub.end_time} (required: end == x.end == {x.end_time}, start == {x.end_time - 3.0})")
print(f"    a (no relation): observed start {a.start_time}, required sub.start = {sub.start_time}")
print(f"    b (follows a):   observed [{b.start_time}, {b.end_time}], required [{sub.start_time + 1.0}, {sub.end_time}]")
if abs(a.start_time - sub.start_time) > 1e-9 or abs(b.end_time - sub.end_time) > 1e-9:
    violations += 1

# (b) the same sub-circuit as member of the circuit that holds x (structure is added as it is, so that the relation is kept,
#     see finding 1 for add()), with a follower: the follower starts while the inner operations are still running
main = DeclarativeCircuit()
x = main.add(wait(0, 5.0))
sub = DeclarativeCircuit(relation=RelationLink(x, RelationType.JOINED_END))
a = sub.add(wait(1, 1.0))
b = sub.add(wait(1, 2.0))
s = main.add_operation(sub.circuit_structure)
y = main.add(wait(1, 1.0))                                  # no relation, shares qubit 1 -> FOLLOWED_BY s
for op in main.operations:
    print(f"(b)   {type(op).__name__} q{op.qubit_index}: [{op.start_time}, {op.end_time}]  {op.relation_link}")
print(f"(b) sub-circuit reports [{s.start_time}, {s.end_time}]; inner operations occupy [{a.start_time}, {b.end_time}]; follower y starts {y.start_time}")
print(f"    required: a.start == {s.start_time}, b.end == {s.end_time}, y.start == b.end")
if abs(a.start_time - s.start_time) > 1e-9 or abs(b.end_time - s.end_time) > 1e-9 or y.start_time < b.end_time - 1e-9:
    violations += 1
print(f"violations: {violations}")
sys.exit(1 if violations else 0)
