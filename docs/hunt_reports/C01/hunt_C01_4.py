"""
C01 finding 4: start times are memoized per (relation link, duration) and the memo is only cleared by
CircuitCompositeOperation.add / DurationRegistry.set_registry_at / the global-duration override. A change of an upstream
duration (or of the structure) that does not pass through one of these leaves followers at their old position:
 (a) DynamicDurationStrategy (public strategy of registry_duration.py whose only purpose is a duration that may change),
 (b) CircuitCompositeOperation.repeat / extend called directly (public in-place modifiers) on a body of relation-less operations,
 (c) the dictionary handed to temporary_override_get_registry_at is changed while the override is active (a sweep of a global duration).
Clause: "FOLLOWED_BY starts when the referenced operation ends" (observing between mutations).
"""
import sys
from qce_circuit.language.declarative_circuit import DeclarativeCircuit
from qce_circuit.structure.circuit_operations import Wait
from qce_circuit.structure.registry_duration import FixedDurationStrategy, DynamicDurationStrategy

def wait(q, d, **kw):
    return Wait(q, duration_strategy=FixedDurationStrategy(d), **kw)

violations = 0
# (a) dynamic duration
setting = {'duration': 1.0}
circuit = DeclarativeCircuit()
a = circuit.add(Wait(0, duration_strategy=DynamicDurationStrategy(duration_call=lambda: setting['duration'])))
b = circuit.add(wait(0, 2.0))           # no relation, shares channel -> FOLLOWED_BY a
print(f"(a) duration setting 1.0: a = [{a.start_time}, {a.end_time}], b.start = {b.start_time}")
setting['duration'] = 7.5
print(f"(a) duration setting 7.5: a = [{a.start_time}, {a.end_time}], b.start = {b.start_time}  (required b.start == a.end == {a.end_time})")
if abs(b.start_time - a.end_time) > 1e-9:
    violations += 1
fresh = DeclarativeCircuit()
a2 = fresh.add(Wait(0, duration_strategy=DynamicDurationStrategy(duration_call=lambda: setting['duration'])))
b2 = fresh.add(wait(0, 2.0))
print(f"    the same program built after the change reports b.start = {b2.start_time}")

# (b) repeat() called directly
body = DeclarativeCircuit()
body.add(wait(0, 1.0))
circuit = DeclarativeCircuit()
s = circuit.add(body)
z = circuit.add(wait(0, 1.0))           # FOLLOWED_BY s
print(f"(b) before repeat: s = [{s.start_time}, {s.end_time}], z.start = {z.start_time}")
s.repeat(times=3)
print(f"(b) after s.repeat(3): s = [{s.start_time}, {s.end_time}], z.start = {z.start_time}  (required z.start == s.end == {s.end_time})")
if abs(z.start_time - s.end_time) > 1e-9:
    violations += 1
# (c) global duration setting changed while the override is active
from qce_circuit.structure.circuit_operations import Rx180, CPhase
from qce_circuit.structure.registry_duration import temporary_override_get_registry_at, GlobalRegistryKey as K
settings = {K.READOUT: 2.3, K.MICROWAVE: 0.7, K.FLUX: 1.1, K.RESET: 3.9}
with temporary_override_get_registry_at(settings):
    circuit = DeclarativeCircuit()
    p = circuit.add(Rx180(0)); q = circuit.add(Rx180(0)); r = circuit.add(CPhase(0, 1))
    print(f"(c) microwave 0.7 : q = [{q.start_time}, {q.end_time}], r.start = {r.start_time}")
    settings[K.MICROWAVE] = 0.35
    print(f"(c) microwave 0.35: q = [{q.start_time}, {q.end_time}], r.start = {r.start_time}  (required r.start == q.end == {q.end_time})")
    if abs(r.start_time - q.end_time) > 1e-9:
        violations += 1
print(f"violations: {violations}")
sys.exit(1 if violations else 0)
