"""
C15 finding 1: waits do NOT keep their duration in the OpenQL export.

WaitOperationsFactory.construct passes int(operation.duration) to kernel.wait(): the fractional part of the
duration is dropped before OpenQL converts to cycles.
 - a Wait shorter than 1 (e.g. 0.5, which is what the library's OWN repetition-code circuit uses for its
   dynamical-decoupling waits with the default duration settings) is exported as a ZERO wait
   (OpenQL prints it as a single-qubit 'barrier');
 - a Wait of 20.9 is exported as 1 cycle (20 ns), i.e. shorter than the circuit's wait.

Run: cd /tmp/hunt-C15 && PYTHONPATH=/tmp/hunt-C15/src /venv/bin/python hunt_C15_1.py
"""
import os, re, sys, warnings
warnings.filterwarnings('ignore')
from qce_circuit.language.declarative_circuit import DeclarativeCircuit
from qce_circuit.language import InitialStateContainer, InitialStateEnum
from qce_circuit.structure.circuit_operations import Wait, Rx180
from qce_circuit.structure.registry_duration import FixedDurationStrategy
from qce_circuit.addon_openql.factory_manager import to_openql
from qce_circuit.addon_openql.platform_manager import PlatformManager
from qce_circuit.library.repetition_code.circuit_constructors import construct_repetition_code_circuit_simplified


def qasm(program) -> str:
    """Compiles (writes <name>.qasm, the program as listed) with OpenQL chatter silenced, returns the text."""
    sys.stdout.flush()
    keep = os.dup(1), os.dup(2)
    null = os.open(os.devnull, os.O_WRONLY)
    os.dup2(null, 1), os.dup2(null, 2)
    try:
        program.compile()
    finally:
        os.dup2(keep[0], 1), os.dup2(keep[1], 2)
    return open(os.path.join(str(PlatformManager.openql_output_directory()), program.name + '.qasm')).read()


def exported_waits(text: str):
    """:return: list of (qubit, duration in ns) of the instructions that stand for a Wait on one qubit."""
    import json
    cycle_time = json.load(open(str(PlatformManager.openql_platform_config_path())))['hardware_settings']['cycle_time']
    out = []
    for line in (l.strip() for l in text.splitlines()):
        m = re.fullmatch(r"wait (\d+), q\[(\d+)\]", line)
        if m:
            out.append((int(m.group(2)), int(m.group(1)) * cycle_time))
        m = re.fullmatch(r"barrier q\[(\d+)\]", line)  # zero duration wait is printed as single-qubit barrier
        if m:
            out.append((int(m.group(1)), 0))
    return out


violation = False

# (a) explicit durations --------------------------------------------------------------------------
durations = [0.5, 0.99, 20.9, 40.5, 40.0]
circuit = DeclarativeCircuit()
for d in durations:
    circuit.add(Wait(0, duration_strategy=FixedDurationStrategy(d)))
    circuit.add(Rx180(0))
got = exported_waits(qasm(to_openql(circuit)))
print("(a) explicit Wait durations on qubit 0")
for d, (q, ns) in zip(durations, got):
    ok = ns >= d
    print(f"    circuit wait {d:>6} -> exported wait {ns:>3} ns   {'ok' if ok else 'SHORTER THAN THE CIRCUIT WAIT'}")
    violation |= not ok

# (b) the library's own circuit ------------------------------------------------------------------
init = InitialStateContainer.from_ordered_list([InitialStateEnum.ZERO, InitialStateEnum.ONE, InitialStateEnum.ZERO])
rep_code = construct_repetition_code_circuit_simplified(qec_cycles=1, initial_state=init)
circuit_waits = [op for op in rep_code.operations if type(op) is Wait]
got = exported_waits(qasm(to_openql(rep_code)))
print("(b) construct_repetition_code_circuit_simplified(qec_cycles=1), default duration settings")
print(f"    Wait operations in circuit : {[(op.qubit_index, op.duration) for op in circuit_waits]}")
print(f"    waits in exported program  : {got}")
if any(op.duration > 0 for op in circuit_waits) and all(ns == 0 for _, ns in got):
    print("    every (non-zero) wait of the circuit is exported with duration 0")
    violation = True

print()
print("Property C15 requires: 'waits keep their duration'.")
print("VIOLATED" if violation else "held")
sys.exit(1 if violation else 0)
