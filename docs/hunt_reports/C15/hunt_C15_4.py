"""
C15 finding 4 (depends on the reading of 'in order' / 'at the position where they were added'):
the program follows the breadth-first listing of the relation graph, which is not the order in which operations and
sub-circuits were added - also for gates that end up on the SAME qubit in OpenQL.

A (sub-circuit with a) DispersiveMeasure only occupies the READOUT channel of its qubit.  Added after two microwave
gates on that qubit it is attached to the root of the graph (no earlier operation on the readout channel), so it is
listed - and exported - directly after the first gate.  OpenQL knows no channels: its gates on q[0] execute in
program order, so the exported program measures BEFORE the second rotation, although the measurement (loop) was
added after it.

Run: cd /tmp/hunt-C15 && PYTHONPATH=/tmp/hunt-C15/src /venv/bin/python hunt_C15_4.py
"""
import os, sys, warnings
warnings.filterwarnings('ignore')
from qce_circuit.language.declarative_circuit import DeclarativeCircuit
from qce_circuit.structure.circuit_operations import Rx180, Rx90, Ry90, DispersiveMeasure
from qce_circuit.structure.registry_repetition import FixedRepetitionStrategy
from qce_circuit.addon_openql.factory_manager import to_openql
from qce_circuit.addon_openql.platform_manager import PlatformManager


def qasm(program) -> str:
    sys.stdout.flush()
    keep = os.dup(1), os.dup(2)
    null = os.open(os.devnull, os.O_WRONLY)
    os.dup2(null, 1), os.dup2(null, 2)
    try:
        program.compile()
    finally:
        os.dup2(keep[0], 1), os.dup2(keep[1], 2)
    return open(os.path.join(str(PlatformManager.openql_output_directory()), program.name + '.qasm')).read()


circuit = DeclarativeCircuit()
circuit.add(Rx180(0))
circuit.add(Rx90(0))
circuit.add(Ry90(0))
loop = DeclarativeCircuit(repetition_strategy=FixedRepetitionStrategy(2))
loop.add(DispersiveMeasure(0, acquisition_strategy=circuit.get_acquisition_strategy()))
circuit.add(loop)                      # added LAST

lines = [l.strip() for l in qasm(to_openql(circuit)).splitlines() if l.startswith('    ')]
flat = [l for l in lines if not l.startswith('foreach') and l != '}']
print("order of addition : x180 q[0], x90 q[0], y90 q[0], 2 x { measure q[0] }")
print("exported program  :", ", ".join(lines))
violation = flat.index('measure q[0]') < flat.index('y90 q[0]')
print()
print("Property C15 requires: sub-circuits appear at the position where they were added.")
print("VIOLATED: the measurement loop on q[0] is exported before gates on q[0] that were added earlier" if violation else "held")
sys.exit(1 if violation else 0)
