"""
C15 finding 2: a Barrier without qubits is exported as a barrier on ALL qubits of the platform.

Barrier(qubit_indices=[]) is a legal operation (List[int], no minimum size; it has no channel identifiers, a duration,
it is listed, drawn and copied like every barrier).  BarrierOperationsFactory.construct calls
kernel.barrier([]) and OpenQL documents an empty qubit list as 'all qubits'.  The exported instruction therefore
acts on 100 qubits, none of which belongs to the operation, and synchronises qubits the circuit keeps independent.

Run: cd /tmp/hunt-C15 && PYTHONPATH=/tmp/hunt-C15/src /venv/bin/python hunt_C15_2.py
"""
import os, re, sys, warnings
warnings.filterwarnings('ignore')
from qce_circuit.language.declarative_circuit import DeclarativeCircuit
from qce_circuit.structure.circuit_operations import Barrier, Rx180, Rx90
from qce_circuit.addon_openql.factory_manager import to_openql
from qce_circuit.addon_openql.platform_manager import PlatformManager


def qasm(program) -> str:
    sys.stdout.flush()
    keep = os.dup(1), os.dup(2)
    null = os.open(os.devnull, os.O_WRONLY)
    os.dup2(null, 1), os.dup2(null, 2)
    try:
        program.compile()
    finally:
        os.dup2(keep[0], 1), os.dup2(keep[1], 2)
    return open(os.path.join(str(PlatformManager.openql_output_directory()), program.name + '.qasm')).read()


circuit = DeclarativeCircuit()
circuit.add(Rx180(0))
empty_barrier = circuit.add(Barrier([]))
circuit.add(Rx90(1))
print("circuit operations        :", [type(op).__name__ for op in circuit.operations])
print("qubits of the empty barrier:", [c.id for c in empty_barrier.channel_identifiers])

lines = [l.strip() for l in qasm(to_openql(circuit)).splitlines() if l.startswith('    ')]
barrier_lines = [l for l in lines if l.startswith('barrier')]
for l in lines:
    print("   ", l if len(l) < 70 else l[:60] + f" ... ({len(re.findall(r'q\[', l))} qubits)")
qubits = [int(q) for l in barrier_lines for q in re.findall(r"q\[(\d+)\]", l)]
print()
print("Property C15 requires: each supported operation becomes the documented OpenQL instruction ON ITS QUBITS")
print(f"(here: no qubit). Observed: barrier on {len(qubits)} qubits.")
violation = len(qubits) > 0
print("VIOLATED" if violation else "held")
sys.exit(1 if violation else 0)
