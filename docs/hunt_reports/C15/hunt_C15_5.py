"""
C15 finding 5: gates beyond 4999 consecutive operations on one qubit are silently missing from the program.

The export walks circuit._circuit_graph.get_node_iterator().  GraphBranch._update_branch_iterator stops after
MAX_GRAPH_DEPTH = 5000 layers (WhileLoopSafety only emits a warning), so nodes deeper than that are never listed;
every later operation on that qubit is attached below the last listed node and is not listed either.
The exported program then lacks gates that were added through the public API (takes ~30 s to build).

Run: cd /tmp/hunt-C15 && PYTHONPATH=/tmp/hunt-C15/src /venv/bin/python hunt_C15_5.py
"""
import os, sys, warnings
warnings.filterwarnings('ignore')
from qce_circuit.language.declarative_circuit import DeclarativeCircuit
from qce_circuit.structure.circuit_operations import Rx180, Rx90, Ry90
from qce_circuit.addon_openql.factory_manager import to_openql
from qce_circuit.addon_openql.platform_manager import PlatformManager


def qasm(program) -> str:
    sys.stdout.flush()
    keep = os.dup(1), os.dup(2)
    null = os.open(os.devnull, os.O_WRONLY)
    os.dup2(null, 1), os.dup2(null, 2)
    try:
        program.compile()
    finally:
        os.dup2(keep[0], 1), os.dup2(keep[1], 2)
    with open(os.path.join(str(PlatformManager.openql_output_directory()), program.name + '.qasm')) as f:
        return f.read()


N = 5010
circuit = DeclarativeCircuit()
for i in range(N):
    circuit.add(Rx180(0) if i % 2 == 0 else Rx90(0))
circuit.add(Ry90(0))   # distinguishable last gate

lines = [l.strip() for l in qasm(to_openql(circuit)).splitlines() if l.startswith('    ')]
print(f"gates added to qubit 0      : {N + 1}")
print(f"gates in exported program   : {len(lines)}")
print(f"last added gate (y90) found : {'y90 q[0]' in lines}")
print()
print("Property C15 requires: the program executes exactly the gates of the circuit's operations.")
violation = len(lines) != N + 1
print("VIOLATED" if violation else "held")
sys.exit(1 if violation else 0)
