"""
C15 finding 3: the repetition count of the exported (top-level) circuit itself is ignored.

DeclarativeCircuit(repetition_strategy=FixedRepetitionStrategy(3)) is a circuit that is repeated three times:
apply_modifiers() unrolls it into three copies, and as a sub-circuit it is exported as a loop of three iterations.
Exported directly (to_openql(circuit), or to_openql(circuit.circuit_structure) - both documented inputs of
construct()) its gates appear only once: _construct_program only looks at nr_of_repetitions of the nodes INSIDE the
circuit that it is given.  Consequence: to_openql(c) and to_openql(c.apply_modifiers()) are different programs.

Run: cd /tmp/hunt-C15 && PYTHONPATH=/tmp/hunt-C15/src /venv/bin/python hunt_C15_3.py
"""
import os, re, sys, warnings
warnings.filterwarnings('ignore')
from qce_circuit.language.declarative_circuit import DeclarativeCircuit
from qce_circuit.structure.circuit_operations import Rx180, CPhase
from qce_circuit.structure.registry_repetition import FixedRepetitionStrategy
from qce_circuit.addon_openql.factory_manager import to_openql
from qce_circuit.addon_openql.platform_manager import PlatformManager


def qasm(program) -> str:
    sys.stdout.flush()
    keep = os.dup(1), os.dup(2)
    null = os.open(os.devnull, os.O_WRONLY)
    os.dup2(null, 1), os.dup2(null, 2)
    try:
        program.compile()
    finally:
        os.dup2(keep[0], 1), os.dup2(keep[1], 2)
    return open(os.path.join(str(PlatformManager.openql_output_directory()), program.name + '.qasm')).read()


def executed(text: str):
    """:return: executed instruction sequence (foreach loops unrolled)."""
    body = [l.strip() for l in text.splitlines() if l.startswith('    ')]

    def rec(i):
        out = []
        while i < len(body):
            m = re.match(r"foreach \(\w+ = (\d+)\.\.0\) \{", body[i])
            if m:
                inner, i = rec(i + 1)
                out += inner * (int(m.group(1)) + 1)
            elif body[i] == '}':
                return out, i + 1
            else:
                out.append(body[i])
                i += 1
        return out, i
    return rec(0)[0]


def build() -> DeclarativeCircuit:
    c = DeclarativeCircuit(repetition_strategy=FixedRepetitionStrategy(3))
    c.add(Rx180(0))
    c.add(CPhase(0, 1))
    return c


direct = executed(qasm(to_openql(build())))
parent = DeclarativeCircuit()
parent.add(build())
as_sub = executed(qasm(to_openql(parent)))
unrolled = executed(qasm(to_openql(build().apply_modifiers())))

print("nr_of_repetitions of the circuit   :", build().circuit_structure.nr_of_repetitions)
print("x180 executed, exported directly   :", direct.count('x180 q[0]'))
print("x180 executed, as only sub-circuit :", as_sub.count('x180 q[0]'))
print("x180 executed, apply_modifiers()   :", unrolled.count('x180 q[0]'))
print()
print("Property C15 requires: the program executes exactly the gates of the circuit's operations, (sub-)circuits as many")
print("times as their repetition count (quantified over build programs with repetition counts >= 1).")
violation = direct != unrolled
print("VIOLATED: export of the circuit differs from export of the same circuit with its repetition applied" if violation else "held")
sys.exit(1 if violation else 0)
