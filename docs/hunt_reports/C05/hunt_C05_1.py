"""
C05 finding 1: an embedded (implicit) copy placed late on the time axis unrolls to a different
relative schedule than its source, because MultiRelationLink.reference_node breaks ties with a
tolerance that is RELATIVE to the absolute time (math.isclose(rel_tol=1e-9, abs_tol=0)).

Run: cd /tmp/hunt-C05 && PYTHONPATH=/tmp/hunt-C05/src /venv/bin/python hunt_C05_1.py
"""
import os, sys, warnings
sys.path.insert(0, os.path.join(os.path.dirname(os.path.abspath(__file__)), 'src'))
warnings.simplefilter('ignore')
from qce_circuit.language.declarative_circuit import DeclarativeCircuit
from qce_circuit.structure.circuit_operations import Wait
from qce_circuit.structure.registry_duration import FixedDurationStrategy
from qce_circuit.structure.registry_repetition import FixedRepetitionStrategy


def relative_schedule(composite):
    operations = composite.decomposed_operations()
    t0 = min(op.start_time for op in operations)
    return [(type(op).__name__, op.channel_identifiers[0].id, round(op.start_time - t0, 6), op.duration) for op in operations]


# A block that is repeated twice: two parallel waits of slightly different (not round) duration.
block = DeclarativeCircuit(nr_qubits=2, repetition_strategy=FixedRepetitionStrategy(repetitions=2))
block.add(Wait(0, duration_strategy=FixedDurationStrategy(duration=1.0005)))
block.add(Wait(1, duration_strategy=FixedDurationStrategy(duration=1.0)))

# Host circuit: a long idle period (e.g. relaxation wait of 1e7 a.u.) followed by the block.
host = DeclarativeCircuit(nr_qubits=2)
host.add(Wait(0, duration_strategy=FixedDurationStrategy(duration=1e7)))
host.add(Wait(1, duration_strategy=FixedDurationStrategy(duration=1e7)))
embedded = host.add(block)  # implicit copy (add_sub_circuit)

before_source, before_copy = relative_schedule(block.circuit_structure), relative_schedule(embedded)
print("before unrolling  source:", before_source)
print("before unrolling  copy  :", before_copy)

block.apply_modifiers()  # unroll the source
host.apply_modifiers()   # unroll the host (and with it the embedded copy)
source, copy = relative_schedule(block.circuit_structure), relative_schedule(embedded)
print("after unrolling   source:", source)
print("after unrolling   copy  :", copy)
print("REQUIRED: the copy has the same schedule relative to its own start as the source (also after unrolling both).")

# Variant without unrolling: a caller-made multi-relation inside the sub-circuit differs immediately after adding.
from qce_circuit.structure.circuit_operations import Rx90
from qce_circuit.structure.intrf_circuit_operation import MultiRelationLink, MultiRelationType, RelationType
sub = DeclarativeCircuit(nr_qubits=3)
wait_a = sub.add(Wait(0, duration_strategy=FixedDurationStrategy(duration=1.0005)))
wait_b = sub.add(Wait(1, duration_strategy=FixedDurationStrategy(duration=1.0)))
sub.add(Rx90(2, relation=MultiRelationLink([wait_a, wait_b], MultiRelationType.LATEST, RelationType.FOLLOWED_BY)))
host2 = DeclarativeCircuit(nr_qubits=3)
host2.add(Wait(2, duration_strategy=FixedDurationStrategy(duration=1e7)))
embedded2 = host2.add(sub)
variant_source, variant_copy = relative_schedule(sub.circuit_structure), relative_schedule(embedded2)
print("variant (no unrolling) source:", variant_source)
print("variant (no unrolling) copy  :", variant_copy)
if variant_source != variant_copy:
    print("OBSERVED: VIOLATION (variant) - Rx90 follows the latest wait (1.0005) in the source and starts at 1.0 in the embedded copy.")

if source != copy:
    second_q0 = [entry for entry in copy if entry[1] == 0][1]
    print(f"OBSERVED: VIOLATION - second repetition starts at {second_q0[2]} in the copy, 1.0005 in the source; "
          f"in the copy the two waits on qubit 0 overlap ([0, 1.0005] and [{second_q0[2]}, {second_q0[2] + second_q0[3]}]).")
    sys.exit(1)
if variant_source != variant_copy:
    sys.exit(1)
print("OBSERVED: no violation")
