"""
C05 finding 8 (minor): Barrier.copy() and CoordinateShiftOperation.copy() hand the SAME qubit_indices list object to the
copy. Editing the qubit list of the original barrier (or the caller-owned list it was built from) afterwards changes
the qubits / channels the copy reports.

Run: cd /tmp/hunt-C05 && PYTHONPATH=/tmp/hunt-C05/src /venv/bin/python hunt_C05_8.py
"""
import os, sys, warnings
sys.path.insert(0, os.path.join(os.path.dirname(os.path.abspath(__file__)), 'src'))
warnings.simplefilter('ignore')
from qce_circuit.language.declarative_circuit import DeclarativeCircuit
from qce_circuit.structure.circuit_operations import Barrier, Rx90
from qce_circuit.addon_stim.circuit_operations import CoordinateShiftOperation


def report(composite):
    return [(type(op).__name__, [c.id for c in op.channel_identifiers], round(op.start_time, 6)) for op in composite.decomposed_operations()]


qubits = [0, 1]
circuit = DeclarativeCircuit(nr_qubits=3)
circuit.add(Rx90(2))
barrier = circuit.add(Barrier(qubits))
circuit.add(CoordinateShiftOperation(qubits, time_shift=1))
copy = circuit.circuit_structure.copy()
before = report(copy)
barrier.qubit_indices.append(2)      # mutate the ORIGINAL barrier only
after = report(copy)
print("copy before:", before)
print("copy after :", after)
shared = copy.decomposed_operations()[1].qubit_indices is barrier.qubit_indices
print("copy shares the list object with the original:", shared)
print("REQUIRED: after copying, mutating the original never changes what the copy reports.")
if before != after:
    print("OBSERVED: VIOLATION - the copied barrier and coordinate shift now cover qubit 2 as well.")
    sys.exit(1)
print("OBSERVED: no violation")
