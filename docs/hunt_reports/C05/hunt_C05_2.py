"""
C05 finding 2: after unrolling and flattening, operations keep multi-relation links that still reference the
(removed) sub-circuit composites. The original honours those references, copy() silently drops them
(OperationNotFoundWarning), so original and copy no longer follow the same schedule as soon as a registry
duration inside the removed sub-circuit is changed.

Run: cd /tmp/hunt-C05 && PYTHONPATH=/tmp/hunt-C05/src /venv/bin/python hunt_C05_2.py
"""
import os, sys, warnings
sys.path.insert(0, os.path.join(os.path.dirname(os.path.abspath(__file__)), 'src'))
from qce_circuit.language.declarative_circuit import DeclarativeCircuit
from qce_circuit.structure.circuit_operations import Wait
from qce_circuit.structure.registry_duration import FixedDurationStrategy, DurationRegistry, RegistryDurationStrategy
from qce_circuit.structure.registry_repetition import FixedRepetitionStrategy


def schedule(composite):
    operations = composite.decomposed_operations()
    t0 = min(op.start_time for op in operations)
    return [(type(op).__name__, op.channel_identifiers[0].id, round(op.start_time - t0, 6), op.duration) for op in operations]


registry = DurationRegistry()
registry.set_registry_at('tau', 1.0)  # variable (swept) waiting time

inner = DeclarativeCircuit(nr_qubits=2)
inner.add(Wait(1, duration_strategy=RegistryDurationStrategy(registry, 'tau')))
block = DeclarativeCircuit(nr_qubits=2, repetition_strategy=FixedRepetitionStrategy(repetitions=2))
block.add(inner)                                                       # sub-circuit on qubit 1 (duration tau)
block.add(Wait(0, duration_strategy=FixedDurationStrategy(duration=5.0)))  # plain wait on qubit 0 (duration 5)
circuit = DeclarativeCircuit(nr_qubits=2)
circuit.add(block)
with warnings.catch_warnings():
    warnings.simplefilter('ignore')
    circuit.apply_modifiers()
    circuit.flatten()
original = circuit.circuit_structure

with warnings.catch_warnings(record=True) as caught:
    warnings.simplefilter('always')
    copy = original.copy()
print("warnings raised by copy():", sorted({str(w.message) for w in caught}))
print("relation links original:", [op.relation_link for op in original.decomposed_operations()])
print("relation links copy    :", [op.relation_link for op in copy.decomposed_operations()])
print("tau=1  original:", schedule(original))
print("tau=1  copy    :", schedule(copy))

registry.set_registry_at('tau', 9.0)
with warnings.catch_warnings():
    warnings.simplefilter('ignore')
    fresh_copy = original.copy()
a, b, c = schedule(original), schedule(copy), schedule(fresh_copy)
print("tau=9  original        :", a)
print("tau=9  copy (earlier)  :", b)
print("tau=9  copy (made now) :", c)
print("REQUIRED: every relation of the copy is re-pointed to the corresponding copied operation, and the copy follows "
      "the same schedule (relative to its start) as the original.")
if a != b or a != c:
    print("OBSERVED: VIOLATION - second repetition starts at 9.0 in the original (after both first-round waits) and at 5.0 "
          "in the copies, where the two waits on qubit 1 overlap ([0, 9] and [5, 14]).")
    sys.exit(1)
print("OBSERVED: no violation")
