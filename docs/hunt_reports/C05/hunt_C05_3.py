"""
C05 finding 3: an explicit copy of a circuit keeps its measurements bound to the acquisition registry of the
ORIGINAL circuit (CircuitCompositeOperation.copy() does not map self -> copy for RegistryAcquisitionStrategy.copy()).
The copied measurements therefore report acquisition index -1, also when the copy is added to a host circuit
(`host.add(sub.circuit_structure.copy())`, the pattern used in tests/language/test_declarative_circuit.py).

Run: cd /tmp/hunt-C05 && PYTHONPATH=/tmp/hunt-C05/src /venv/bin/python hunt_C05_3.py
"""
import os, sys, warnings
sys.path.insert(0, os.path.join(os.path.dirname(os.path.abspath(__file__)), 'src'))
warnings.simplefilter('ignore')
from qce_circuit.language.declarative_circuit import DeclarativeCircuit
from qce_circuit.structure.circuit_operations import Rx90, DispersiveMeasure


def measurements(composite):
    return [(op.qubit_index, op.acquisition_tag, op.acquisition_index, op.circuit_level_acquisition_index)
            for op in composite.decomposed_operations() if isinstance(op, DispersiveMeasure)]


def build() -> DeclarativeCircuit:
    circuit = DeclarativeCircuit(nr_qubits=2)
    circuit.add(Rx90(0))
    circuit.add(DispersiveMeasure(0, acquisition_strategy=circuit.get_acquisition_strategy(), acquisition_tag='a'))
    circuit.add(DispersiveMeasure(1, acquisition_strategy=circuit.get_acquisition_strategy(), acquisition_tag='b'))
    circuit.add(DispersiveMeasure(0, acquisition_strategy=circuit.get_acquisition_strategy(), acquisition_tag='a'))
    return circuit


violated = False
# (a) explicit copy
circuit = build()
original = circuit.circuit_structure
copy = original.copy()
print("(a) original measurements (qubit, tag, qubit-level index, circuit-level index):", measurements(original))
print("(a) explicit copy measurements                                              :", measurements(copy))
bound_to_original = all(op.acquisition_strategy.registry.reference_circuit is original
                        for op in copy.decomposed_operations() if isinstance(op, DispersiveMeasure))
print("(a) copied measurements still look their index up in the ORIGINAL circuit:", bound_to_original)
violated |= measurements(original) != measurements(copy)

# (b) adding the circuit directly vs. adding an explicit copy of it
host_direct = DeclarativeCircuit(nr_qubits=2)
host_direct.add(build())
host_via_copy = DeclarativeCircuit(nr_qubits=2)
host_via_copy.add(build().circuit_structure.copy())
print("(b) host.add(sub)                          :", measurements(host_direct.circuit_structure))
print("(b) host.add(sub.circuit_structure.copy()) :", measurements(host_via_copy.circuit_structure))
violated |= measurements(host_direct.circuit_structure) != measurements(host_via_copy.circuit_structure)

print("REQUIRED: a copy is faithful - its measurements report the same acquisition tags AND are indexed within the copy "
      "(0, 0, 1 / 0, 1, 2), like the original; the copy does not depend on the original.")
if violated:
    print("OBSERVED: VIOLATION - all copied measurements report index -1 (not found in the registry of the original).")
    sys.exit(1)
print("OBSERVED: no violation")
