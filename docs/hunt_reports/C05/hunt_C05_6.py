"""
C05 finding 6: with a DynamicDurationStrategy (duration supplied by a callable) the original keeps reporting memoized
start times after the callable's value changed, a copy made at that moment reports the up-to-date schedule:
copy and original disagree (and the original's own report is inconsistent: overlapping operations on one qubit).

Run: cd /tmp/hunt-C05 && PYTHONPATH=/tmp/hunt-C05/src /venv/bin/python hunt_C05_6.py
"""
import os, sys, warnings
sys.path.insert(0, os.path.join(os.path.dirname(os.path.abspath(__file__)), 'src'))
warnings.simplefilter('ignore')
from qce_circuit.language.declarative_circuit import DeclarativeCircuit
from qce_circuit.structure.circuit_operations import Rx90, Ry90, Wait
from qce_circuit.structure.registry_duration import DynamicDurationStrategy


def schedule(composite):
    return [(type(op).__name__, round(op.start_time, 6), op.duration) for op in composite.decomposed_operations()]


setting = {'wait': 1.0}
circuit = DeclarativeCircuit(nr_qubits=1)
circuit.add(Wait(0, duration_strategy=DynamicDurationStrategy(duration_call=lambda: setting['wait'])))
circuit.add(Rx90(0))
circuit.add(Ry90(0))
original = circuit.circuit_structure
print("original, wait=1.0:", schedule(original))   # observation
setting['wait'] = 2.5
copy = original.copy()
a, b = schedule(original), schedule(copy)
print("original, wait=2.5:", a)
print("copy,     wait=2.5:", b)
print("REQUIRED: the copy reports the same durations and schedule as the original.")
copy.add(Rx90(0))  # mutate ONLY the copy
c = schedule(original)
print("original after adding an operation to the copy:", c)
print("REQUIRED: adding to the copy never changes what the original reports.")
if a != c:
    print("OBSERVED: VIOLATION - what the original reports changed (Rx90 1.0 -> 2.5) because the copy was extended.")
if a != b or a != c:
    print("OBSERVED: VIOLATION - original still starts Rx90 at 1.0 (inside the 2.5 long wait), the copy at 2.5.")
    sys.exit(1)
print("OBSERVED: no violation")
