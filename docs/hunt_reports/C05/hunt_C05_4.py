"""
C05 finding 4: the relation of a (sub-)circuit to an operation outside of it is dropped by copy()
(RelationLink.copy() maps unknown reference nodes to None, add_sub_circuit() only offers {sub: host}).
 * explicit copy / implicit copy (add) / repeated copies of a circuit declared JOINED_END to an outside operation
   have another INTERNAL schedule than the source: the source aligns its first operations at their end, the copies at
   their start;
 * the implicit copy added to the host ignores the requested position (it is placed at t=0 of the host).

Run: cd /tmp/hunt-C05 && PYTHONPATH=/tmp/hunt-C05/src /venv/bin/python hunt_C05_4.py
"""
import os, sys, warnings
sys.path.insert(0, os.path.join(os.path.dirname(os.path.abspath(__file__)), 'src'))
warnings.simplefilter('ignore')
from qce_circuit.language.declarative_circuit import DeclarativeCircuit
from qce_circuit.structure.circuit_operations import Rx90, Wait
from qce_circuit.structure.intrf_circuit_operation import RelationLink, RelationType
from qce_circuit.structure.registry_duration import FixedDurationStrategy
from qce_circuit.structure.registry_repetition import FixedRepetitionStrategy


def relative_schedule(composite):
    operations = composite.decomposed_operations()
    t0 = min(op.start_time for op in operations)
    return [(type(op).__name__, op.channel_identifiers[0].id, round(op.start_time - t0, 6), op.duration) for op in operations]


host = DeclarativeCircuit(nr_qubits=3)
long_wait = host.add(Wait(2, duration_strategy=FixedDurationStrategy(duration=10.0)))

# Sub-circuit that has to END together with the long wait of the host (relation is a constructor argument).
sub = DeclarativeCircuit(
    nr_qubits=3,
    relation=RelationLink(long_wait, RelationType.JOINED_END),
    repetition_strategy=FixedRepetitionStrategy(repetitions=2),
)
sub.add(Rx90(0))
sub.add(Wait(1, duration_strategy=FixedDurationStrategy(duration=3.0)))

source = relative_schedule(sub.circuit_structure)
explicit = relative_schedule(sub.circuit_structure.copy())
embedded = host.add(sub)
implicit = relative_schedule(embedded)
print("source        (start %.1f): %s" % (sub.start_time, source))
print("explicit copy             :", explicit)
print("implicit copy (start %.1f): %s" % (embedded.start_time, implicit))
print("relation source:", sub.circuit_structure.relation_link, "-> reference", sub.circuit_structure.relation_link.reference_node)
print("relation copy  :", embedded.relation_link, "-> reference", embedded.relation_link.reference_node)
sub.apply_modifiers()
unrolled = relative_schedule(sub.circuit_structure)
print("source unrolled (2 repetitions):", unrolled)
first, second = unrolled[:2], [(n, q, round(t - 3.0, 6), d) for n, q, t, d in unrolled[2:]]
print("   first repetition :", first)
print("   second repetition:", second, "(relative to its own start)")
print("REQUIRED: explicit, implicit and repeated copies have the same schedule relative to their own start as the source "
      "(Rx90 starts 2.0 after the wait on qubit 1) and the same relations.")
if source != explicit or source != implicit or first != second:
    print("OBSERVED: VIOLATION - in all copies Rx90 starts together with the wait (offset 0.0 instead of 2.0); the embedded "
          "copy lost the reference to the host operation and starts at 0.0 instead of 7.0.")
    sys.exit(1)
print("OBSERVED: no violation")
