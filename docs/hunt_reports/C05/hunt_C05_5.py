"""
C05 finding 5: hidden state that is not part of the copy. Merely reading the schedule of the original (start times are
memoized in a global lru_cache) changes what apply_flatten_to_self() builds: the original (observed) and its
(unobserved) copy list their operations in a different order after the SAME flatten call. apply_flatten_to_self()
re-links operations (composite relation -> multi-relation, add_to_graph resets) without clearing the start-time
cache, so positions in the rebuilt graph are derived from a mix of stale and fresh start times.

Run: cd /tmp/hunt-C05 && PYTHONPATH=/tmp/hunt-C05/src /venv/bin/python hunt_C05_5.py
"""
import os, sys, warnings
sys.path.insert(0, os.path.join(os.path.dirname(os.path.abspath(__file__)), 'src'))
warnings.simplefilter('ignore')
from qce_circuit.language.declarative_circuit import DeclarativeCircuit
from qce_circuit.structure.circuit_operations import Barrier, Rx90, VirtualVacant, VirtualPark
from qce_circuit.addon_stim.circuit_operations import DetectorOperation
from qce_circuit.structure.intrf_circuit_operation import RelationLink, RelationType, QubitChannel
from qce_circuit.structure.registry_duration import FixedDurationStrategy


def build() -> DeclarativeCircuit:
    s1 = DeclarativeCircuit(nr_qubits=3)
    barrier = s1.add(Barrier([0]))
    s1.add(Rx90(2, relation=RelationLink(barrier, RelationType.JOINED_END)))
    s2 = DeclarativeCircuit(nr_qubits=3)
    s2.add(VirtualVacant(2, qubit_channel=QubitChannel.READOUT, duration_strategy=FixedDurationStrategy(duration=1.1)))
    outer = DeclarativeCircuit(nr_qubits=3)
    added_s1 = outer.add(s1)
    outer.add(s2)
    second_barrier = Barrier([0, 2])
    second_barrier.relation = RelationLink(added_s1, RelationType.FOLLOWED_BY)
    outer.add(second_barrier)
    outer.add(DetectorOperation(2))
    circuit = DeclarativeCircuit(nr_qubits=3)
    added_outer = circuit.add(outer)
    circuit.add(VirtualPark(2, relation=RelationLink(added_outer, RelationType.JOINED_END)))
    return circuit


def listing(composite):
    return [f"{type(op).__name__}@{round(op.start_time, 6)}" for op in composite.decomposed_operations()]


original = build().circuit_structure
copy = original.copy()
print("original before flatten (this observation is the only difference):", listing(original))
original.apply_flatten_to_self()
copy.apply_flatten_to_self()
a, b = listing(original), listing(copy)
print("original after flatten:", a)
print("copy     after flatten:", b)

control_original = build().circuit_structure
control_copy = control_original.copy()
control_original.apply_flatten_to_self()
control_copy.apply_flatten_to_self()
print("control (nothing observed) identical:", listing(control_original) == listing(control_copy))
print("REQUIRED: original and copy hold the same operation sequence; the same mutation applied to both gives the same "
      "sequence, whether or not one of them was looked at before.")
if a != b:
    print("OBSERVED: VIOLATION - operation sequences differ after the same flatten call.")
    sys.exit(1)
print("OBSERVED: no violation")
