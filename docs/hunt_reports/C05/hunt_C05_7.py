"""
C05 finding 7: distinct sub-circuits compare (and hash) equal, so they collide as keys of the relation_transfer_lookup
used by copy(): a relation to the first sub-circuit is re-pointed to the copy of the SECOND one.
CircuitCompositeOperation is a @dataclass(unsafe_hash=True) whose graph field compares equal for every graph
(GraphBranch has compare=False on all fields), and every DeclarativeCircuit() shares ONE default relation object
(default argument `relation=RelationLink.no_relation()` is evaluated once). Circuit structures that are added through
the non-copying entry points (DeclarativeCircuit.add_operation / CircuitCompositeOperation.add) keep that shared link.

Run: cd /tmp/hunt-C05 && PYTHONPATH=/tmp/hunt-C05/src /venv/bin/python hunt_C05_7.py
"""
import os, sys, warnings
sys.path.insert(0, os.path.join(os.path.dirname(os.path.abspath(__file__)), 'src'))
warnings.simplefilter('ignore')
from qce_circuit.language.declarative_circuit import DeclarativeCircuit
from qce_circuit.structure.circuit_operations import Rx90, Wait
from qce_circuit.structure.intrf_circuit_operation import RelationLink, RelationType
from qce_circuit.structure.registry_duration import FixedDurationStrategy


def schedule(composite):
    return [(type(op).__name__, op.channel_identifiers[0].id, round(op.start_time, 6), op.duration) for op in composite.decomposed_operations()]


first = DeclarativeCircuit(nr_qubits=3)
first.add(Wait(0, duration_strategy=FixedDurationStrategy(duration=0.3)))
second = DeclarativeCircuit(nr_qubits=3)
second.add(Wait(1, duration_strategy=FixedDurationStrategy(duration=0.7)))
print("distinct sub-circuits compare equal:", first.circuit_structure == second.circuit_structure,
      "| same hash:", hash(first.circuit_structure) == hash(second.circuit_structure))

parent = DeclarativeCircuit(nr_qubits=3)
parent.add_operation(first.circuit_structure)    # non-copying entry point, signature: add_operation(operation: ICircuitOperation)
parent.add_operation(second.circuit_structure)
parent.add(Rx90(2, relation=RelationLink(first.circuit_structure, RelationType.FOLLOWED_BY)))

original = parent.circuit_structure
copy = original.copy()
a, b = schedule(original), schedule(copy)
print("original:", a)
print("copy    :", b)
rx_copy = copy.decomposed_operations()[-1]
print("copied Rx90 refers to a sub-circuit on qubits", [c.id for c in rx_copy.relation_link.reference_node.channel_identifiers],
      "(original: qubits", [c.id for c in first.circuit_structure.channel_identifiers], ")")
print("REQUIRED: every internal relation is re-pointed to the CORRESPONDING copied operation; same schedule.")
if a != b:
    print("OBSERVED: VIOLATION - Rx90 follows the 0.3 wait in the original and the 0.7 wait in the copy.")
    sys.exit(1)
print("OBSERVED: no violation")
