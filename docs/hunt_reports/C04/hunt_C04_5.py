"""
C04 finding 5 -- start times are memoised (lru_cache on RelationLink.get_start_time) and several legal ways to change a
duration / a block do not invalidate the memo.  After the change the block's duration follows the new content, but what
is scheduled FOLLOWED_BY the block keeps its old start time and so starts before the block has ended.

  circuit = [block = [Wait(q0, d)], Y = Wait(q1, 1.0) FOLLOWED_BY block]      observed once, then
  (a) d comes from a DynamicDurationStrategy (registry_duration.py) whose callable now returns another value
  (b) block.repeat(3) is called directly (public method of CircuitCompositeOperation, "Simple repeat", in place)
  (c) the (non frozen dataclass) attribute `duration_strategy` of the operation is replaced
For comparison DurationRegistry.set_registry_at / DeclarativeCircuit.add / apply_modifiers do invalidate the memo.
"""
import sys
import warnings
from qce_circuit import DeclarativeCircuit, Wait, FixedDurationStrategy, RelationLink, RelationType
from qce_circuit.structure.registry_duration import DynamicDurationStrategy

warnings.simplefilter("ignore")

def build(strategy):
    circuit = DeclarativeCircuit()
    sub = DeclarativeCircuit()
    sub.add(Wait(0, duration_strategy=strategy))
    block = circuit.add(sub)
    y = circuit.add(Wait(1, duration_strategy=FixedDurationStrategy(1.0), relation=RelationLink(block, RelationType.FOLLOWED_BY)))
    return circuit, block, y

def report(name, circuit, block, y):
    block_end = max(op.end_time for op in block.decomposed_operations())
    print(f"({name}) block duration {block.duration}, block operations end at {block_end}, Y starts at {y.start_time}, circuit duration {circuit.duration}")
    return y.start_time < block_end - 1e-9

results = []

# (a) dynamic duration
setting = {'duration': 1.0}
circuit, block, y = build(DynamicDurationStrategy(duration_call=lambda: setting['duration']))
report("a, before", circuit, block, y)
setting['duration'] = 5.0
results.append(report("a, after the callable returns 5.0", circuit, block, y))

# (b) repeat() called directly
circuit, block, y = build(FixedDurationStrategy(2.0))
report("b, before", circuit, block, y)
block.repeat(times=3)
results.append(report("b, after block.repeat(3)", circuit, block, y))

# (c) attribute replaced
circuit, block, y = build(FixedDurationStrategy(2.0))
report("c, before", circuit, block, y)
block.decomposed_operations()[0].duration_strategy = FixedDurationStrategy(7.0)
results.append(report("c, after duration_strategy replaced by 7.0", circuit, block, y))

print("required: Y (FOLLOWED_BY block) starts only after all operations of the block have ended, for all duration assignments")
print("violated:", results)
violated = any(results)
print("VIOLATION" if violated else "holds")
sys.exit(1 if violated else 0)
