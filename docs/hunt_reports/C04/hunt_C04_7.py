"""
C04 finding 7 -- after flatten() (and in extend/repeat) "FOLLOWED_BY the block" becomes a MultiRelationLink that picks
the latest reference with `end >= latest or math.isclose(end, latest, rel_tol=1e-9)`; a later listed operation whose
end is up to 1e-9 (relative) EARLIER than the real latest end wins.  The follower then starts before the last
operation of the block has ended (by up to 1e-9 * t).  Shown with a small and a large time scale.
"""
import sys
import warnings
from qce_circuit import DeclarativeCircuit, Wait, FixedDurationStrategy, RelationLink, RelationType

warnings.simplefilter("ignore")

def wait(q, d, **kw):
    return Wait(q, duration_strategy=FixedDurationStrategy(d), **kw)

violated = False
for long, short in ((1000.0000005, 1000.0), (2e9 + 1.0, 2e9)):
    circuit = DeclarativeCircuit()
    sub = DeclarativeCircuit()
    sub.add(wait(0, long))
    sub.add(wait(1, short))
    block = circuit.add(sub)
    y = circuit.add(wait(2, 1.0, relation=RelationLink(block, RelationType.FOLLOWED_BY)))
    block_ops = block.decomposed_operations()
    before = (max(op.end_time for op in block_ops), y.start_time)
    flat = circuit.flatten()
    after = (max(op.end_time for op in block_ops), y.start_time)
    print(f"durations {long!r}/{short!r}: before flatten block ends {before[0]!r}, Y starts {before[1]!r}; "
          f"after flatten block ends {after[0]!r}, Y starts {after[1]!r} (early by {after[0] - after[1]!r}); duration {flat.duration!r}")
    violated |= after[1] < after[0]
print("required: Y starts only after all of the block's operations have ended (also after flatten)")
print("VIOLATION" if violated else "holds")
sys.exit(1 if violated else 0)
