"""
C04 finding 4 -- a sub-circuit whose own relation is JOINED_END: its relation is handed to each of its first operations
individually (each first operation ends together with the reference), while the (parent) duration bookkeeping assumes
the whole block ends with the reference.  Result: the parent's duration does not span its content, the block's
start_time/end_time do not bracket its operations, and a follower of the block starts before the block has ended.

  circuit = [X = Wait(q0, 10.0), block JOINED_END X, Y = Wait(q2, 1.0) FOLLOWED_BY block]
  block   = [A = Wait(q1, 2.0), B = Wait(q1, 3.0)]   (B follows A)
Three legal ways to get there are shown:
  (a) DeclarativeCircuit(relation=...) + add_operation(structure)          (ICircuitOperation entry point, no copy)
  (b) CircuitCompositeOperation(relation=...) + CircuitCompositeOperation.add (structure-level API)
  (c) DeclarativeCircuit.add(sub) and then the public `relation_link` setter on the returned sub-circuit
"""
import sys
import warnings
from qce_circuit import DeclarativeCircuit, Wait, FixedDurationStrategy, RelationLink, RelationType
from qce_circuit.structure.intrf_circuit_operation_composite import CircuitCompositeOperation

warnings.simplefilter("ignore")

def wait(q, d, **kw):
    return Wait(q, duration_strategy=FixedDurationStrategy(d), **kw)

def report(name, top, block, y):
    ops = top.decomposed_operations()
    span = (min(o.start_time for o in ops), max(o.end_time for o in ops))
    block_ops = block.decomposed_operations()
    block_span = (min(o.start_time for o in block_ops), max(o.end_time for o in block_ops))
    print(f"({name}) operations: {[(o.channel_identifiers[0].id, o.start_time, o.end_time) for o in ops]}")
    print(f"({name}) circuit duration reported {top.duration}, span of contained operations {span} -> {span[1] - span[0]}")
    print(f"({name}) block: start_time {block.start_time}, duration {block.duration}, end_time {block.end_time}; its operations span {block_span}")
    print(f"({name}) follower Y (FOLLOWED_BY block) starts at {y.start_time}; block's operations end at {block_span[1]}")
    bad_duration = abs(top.duration - (span[1] - span[0])) > 1e-9
    bad_follower = y.start_time < block_span[1] - 1e-9  # no operation of the block starts before its first operation A
    return bad_duration, bad_follower

results = []

# (a)
circuit = DeclarativeCircuit()
x = circuit.add(wait(0, 10.0))
sub = DeclarativeCircuit(relation=RelationLink(x, RelationType.JOINED_END))
sub.add(wait(1, 2.0)); sub.add(wait(1, 3.0))
block = circuit.add_operation(sub.circuit_structure)
y = circuit.add(wait(2, 1.0, relation=RelationLink(block, RelationType.FOLLOWED_BY)))
results.append(report("a", circuit.circuit_structure, block, y))

# (b)
top = CircuitCompositeOperation()
x = wait(0, 10.0); top.add(x)
block = CircuitCompositeOperation(relation=RelationLink(x, RelationType.JOINED_END))
block.add(wait(1, 2.0)); block.add(wait(1, 3.0))
top.add(block)
y = wait(2, 1.0, relation=RelationLink(block, RelationType.FOLLOWED_BY)); top.add(y)
results.append(report("b", top, block, y))

# (c)
circuit = DeclarativeCircuit()
x = circuit.add(wait(0, 10.0))
sub = DeclarativeCircuit()
sub.add(wait(1, 2.0)); sub.add(wait(1, 3.0))
block = circuit.add(sub)
block.relation_link = RelationLink(x, RelationType.JOINED_END)
y = circuit.add(wait(2, 1.0, relation=RelationLink(block, RelationType.FOLLOWED_BY)))
results.append(report("c", circuit.circuit_structure, block, y))

print("required: reported duration == latest end - earliest start of the contained operations; Y starts only after the block's operations ended")
violated = any(d or f for d, f in results)
print("duration clause violated:", [d for d, _ in results], " follower clause violated:", [f for _, f in results])
print("VIOLATION" if violated else "holds")
sys.exit(1 if violated else 0)
