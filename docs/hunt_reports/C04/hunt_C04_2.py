"""
C04 finding 2 -- a sub-circuit that is declared FOLLOWED_BY a block (constructor argument `relation`) silently loses
that relation when it is added with DeclarativeCircuit.add(); it then starts before the block has ended.

  block   = [Wait(q0, 5.0)]                                  added to circuit -> `added_block`
  follower = DeclarativeCircuit(relation=RelationLink(added_block, FOLLOWED_BY)) containing Wait(q1, 1.0)
  circuit.add(follower)
The same relation given to a single operation (Wait(q1, 1.0, relation=...)) is honoured (starts at 5.0).
"""
import sys
import warnings
from qce_circuit import DeclarativeCircuit, Wait, FixedDurationStrategy, RelationLink, RelationType

warnings.simplefilter("error")  # show that no warning at all is raised

circuit = DeclarativeCircuit()
block = DeclarativeCircuit()
block.add(Wait(0, duration_strategy=FixedDurationStrategy(5.0)))
added_block = circuit.add(block)

follower = DeclarativeCircuit(relation=RelationLink(added_block, RelationType.FOLLOWED_BY))
follower.add(Wait(1, duration_strategy=FixedDurationStrategy(1.0)))
added_follower = circuit.add(follower)

block_end = max(op.end_time for op in added_block.decomposed_operations())
follower_start = min(op.start_time for op in added_follower.decomposed_operations())
print(f"relation of the added follower sub-circuit: {added_follower.relation_link} (has_relation={added_follower.has_relation})")
print(f"block ends at {block_end}; follower sub-circuit: start_time={added_follower.start_time}, its operation starts at {follower_start}")
print(f"circuit duration {circuit.duration}")

# reference: same relation on a plain operation
circuit2 = DeclarativeCircuit()
added_block2 = circuit2.add(block)
op = circuit2.add(Wait(1, duration_strategy=FixedDurationStrategy(1.0), relation=RelationLink(added_block2, RelationType.FOLLOWED_BY)))
print(f"(reference) a single operation with the same relation starts at {op.start_time}")
print("required: everything scheduled FOLLOWED_BY the block starts only after all of the block's operations have ended (>= 5.0)")

violated = follower_start < block_end - 1e-9
print("VIOLATION" if violated else "holds")
sys.exit(1 if violated else 0)
