"""
C04 finding 6 -- two different sub-circuits compare (and hash) equal, because (i) CircuitCompositeOperation is a
dataclass with eq=True/unsafe_hash=True whose only distinguishing field is the relation link and (ii) all
DeclarativeCircuit() instances created with the default argument share ONE RelationLink instance
(`relation: RelationLink = RelationLink.no_relation()` is evaluated once).  CircuitCompositeOperation.copy() keeps the
copied operations in a dict keyed by the original operations, so one sub-circuit overwrites the other and an operation
that is FOLLOWED_BY the long block is, in the copy, attached to the short block: it starts before the long block ended.

  inner = [N1 = [Wait(q0, 5.0)], N2 = [Wait(q1, 1.0)], X = Wait(q2, 1.0) FOLLOWED_BY N1]
N1 / N2 are added with add_operation (signature: ICircuitOperation; a sub-circuit structure is one) i.e. without copy.
Then circuit.add(inner) copies `inner`.
"""
import sys
import warnings
from qce_circuit import DeclarativeCircuit, Wait, FixedDurationStrategy, RelationLink, RelationType

warnings.simplefilter("ignore")

def wait(q, d, **kw):
    return Wait(q, duration_strategy=FixedDurationStrategy(d), **kw)

n1 = DeclarativeCircuit(); n1.add(wait(0, 5.0))
n2 = DeclarativeCircuit(); n2.add(wait(1, 1.0))
print("distinct sub-circuits compare equal:", n1.circuit_structure == n2.circuit_structure,
      "| same relation instance:", n1.circuit_structure.relation_link is n2.circuit_structure.relation_link)

inner = DeclarativeCircuit()
inner.add_operation(n1.circuit_structure)
inner.add_operation(n2.circuit_structure)
x = inner.add(wait(2, 1.0, relation=RelationLink(n1.circuit_structure, RelationType.FOLLOWED_BY)))
print("inner circuit :", [(op.channel_identifiers[0].id, op.start_time, op.end_time) for op in inner.operations], "duration", inner.duration)

circuit = DeclarativeCircuit()
added = circuit.add(inner)
ops = circuit.operations
print("after add()   :", [(op.channel_identifiers[0].id, op.start_time, op.end_time) for op in ops], "duration", circuit.duration)
long_block_end = max(op.end_time for op in ops if op.channel_identifiers[0].id == 0)
x_copy = [op for op in ops if op.channel_identifiers[0].id == 2][0]
print(f"copy of X is FOLLOWED_BY a block ({x_copy.relation_link}) and starts at {x_copy.start_time}; the block it was declared to follow ends at {long_block_end}")
print("required: X starts only after all operations of the block N1 have ended (5.0), as it does before the copy")
violated = x_copy.start_time < long_block_end - 1e-9
print("VIOLATION" if violated else "holds")
sys.exit(1 if violated else 0)
