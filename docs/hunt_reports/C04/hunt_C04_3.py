"""
C04 finding 3 -- repetition (apply_modifiers / CircuitCompositeOperation.repeat / extend): the next repetition is
scheduled FOLLOWED_BY the *graph leaves* of the block only. When the last-ending operation of the block is not a
relation leaf (a long operation with a shorter JOINED_START successor -- the shape named in the quantifier), the next
repetition starts before all operations of the block have ended.

  block (repetitions=2) = [A = Wait(q0, 10.0), B = Wait(q1, 1.0) JOINED_START A]
Expected after apply_modifiers: second repetition starts at 10.0 (A is the last-ending operation of the block).
Also shown: CircuitCompositeOperation.extend(other) ("Extend self with other graph branch") has the same behaviour.
"""
import sys
import warnings
from qce_circuit import DeclarativeCircuit, Wait, FixedDurationStrategy, FixedRepetitionStrategy, RelationLink, RelationType

warnings.simplefilter("ignore")

def wait(q, d, **kw):
    return Wait(q, duration_strategy=FixedDurationStrategy(d), **kw)

circuit = DeclarativeCircuit()
block = DeclarativeCircuit(repetition_strategy=FixedRepetitionStrategy(repetitions=2))
a = block.add(wait(0, 10.0))
block.add(wait(1, 1.0, relation=RelationLink(a, RelationType.JOINED_START)))
added_block = circuit.add(block)

single_ops = added_block.decomposed_operations()
single_end = max(op.end_time for op in single_ops)
print(f"one repetition: operations {[(op.channel_identifiers[0].id, op.start_time, op.end_time) for op in single_ops]}, block duration {added_block.duration}")

modified = circuit.apply_modifiers()
ops = added_block.decomposed_operations()
print(f"after apply_modifiers: {[(op.channel_identifiers[0].id, op.start_time, op.end_time) for op in ops]}, block duration {added_block.duration}")
second_repetition_start = min(op.start_time for op in ops[len(single_ops):])
print(f"first repetition ends at {single_end}; second repetition (scheduled FOLLOWED_BY the first) starts at {second_repetition_start}")
violated_1 = second_repetition_start < single_end - 1e-9

# same thing through extend()
first = DeclarativeCircuit()
a = first.add(wait(0, 10.0))
first.add(wait(1, 1.0, relation=RelationLink(a, RelationType.JOINED_START)))
second = DeclarativeCircuit()
x = second.add(wait(2, 1.0))
first_end = first.circuit_structure.end_time
first.circuit_structure.extend(second.circuit_structure)
print(f"extend(): block ended at {first_end}; the extension {x.relation_link} starts at {x.start_time}")
violated_2 = x.start_time < first_end - 1e-9

print("required: what is scheduled FOLLOWED_BY the block starts only after ALL operations of the block have ended (10.0)")
violated = violated_1 or violated_2
print("VIOLATION" if violated else "holds")
sys.exit(1 if violated else 0)
