"""
C04 finding 8 (boundary size) -- a circuit with more than 4999 operations in sequence: the graph traversal stops at
MAX_GRAPH_DEPTH = 5000 levels (WhileLoopSafety), operations deeper than that are skipped by the node iterator, hence by
`duration` (and by `operations`).  The reported duration no longer spans the operations that were added.
Only a WhileLoopSafetyExceededWarning is issued.  (Runtime of this script: about half a minute.)
"""
import sys
import warnings
from qce_circuit import DeclarativeCircuit, Wait, FixedDurationStrategy

warnings.simplefilter("ignore")

n = 5050
circuit = DeclarativeCircuit()
added = [circuit.add(Wait(0, duration_strategy=FixedDurationStrategy(1.0))) for _ in range(n)]
duration = circuit.duration
last = circuit.get_last_entry()
print(f"{n} operations of duration 1.0 added back-to-back on one qubit")
print(f"reported circuit duration: {duration}; operations listed by circuit.operations: {len(circuit.operations)}")
print(f"last added operation (circuit.get_last_entry()): start {last.start_time}, end {last.end_time}")
span = (min(op.start_time for op in added), max(op.end_time for op in added))
print(f"span of the {n} added operations (their own start/end times): {span}; operations number 5000.. all start at {added[-2].start_time} (they pile up on the same qubit)")
print(f"required: duration == latest end - earliest start over all contained operations == {span[1] - span[0]} (and {float(n)} if scheduled back-to-back)")
violated = abs(duration - (span[1] - span[0])) > 1e-6
print("VIOLATION" if violated else "holds")
sys.exit(1 if violated else 0)
