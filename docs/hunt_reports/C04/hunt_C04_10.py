"""
C04 finding 10 -- flatten() freezes WHICH of several referenced blocks is the latest one.  After apply_modifiers a
repetition is FOLLOWED_BY "the latest of the leaf sub-circuits" (MultiRelationLink over blocks, evaluated lazily).
apply_flatten_to_self replaces that link by a link to the operations of the block that is latest AT THAT MOMENT only.
With registry durations (RegistryDurationStrategy, "for all duration assignments") changed afterwards, the next
repetition starts before all operations of the blocks it follows have ended.  Without flatten the same change is fine.

  P (repetitions=2) = [N1 = [Wait(q0, key 'a')], N2 = [Wait(q1, key 'b')]],   a = 1.0, b = 2.0, later a = 5.0
"""
import sys
import warnings
from qce_circuit import (DeclarativeCircuit, Wait, FixedRepetitionStrategy, RegistryDurationStrategy, DurationRegistry)

warnings.simplefilter("ignore")
registry = DurationRegistry()

def build():
    registry.set_registry_at('a', 1.0)
    registry.set_registry_at('b', 2.0)
    circuit = DeclarativeCircuit()
    p = DeclarativeCircuit(repetition_strategy=FixedRepetitionStrategy(repetitions=2))
    n1 = DeclarativeCircuit(); n1.add(Wait(0, duration_strategy=RegistryDurationStrategy(registry, 'a')))
    n2 = DeclarativeCircuit(); n2.add(Wait(1, duration_strategy=RegistryDurationStrategy(registry, 'b')))
    p.add(n1); p.add(n2)
    circuit.add(p)
    return circuit

def times(circuit):
    return [(op.channel_identifiers[0].id, op.start_time, op.end_time) for op in circuit.operations]

results = {}
for flatten in (False, True):
    circuit = build().apply_modifiers()
    if flatten:
        circuit = circuit.flatten()
    name = "apply_modifiers + flatten" if flatten else "apply_modifiers only     "
    print(f"{name}: a=1.0 -> {times(circuit)} duration {circuit.duration}")
    registry.set_registry_at('a', 5.0)
    t = times(circuit)
    print(f"{name}: a=5.0 -> {t} duration {circuit.duration}")
    first_repetition_end = max(end for _, _, end in t[:2])
    second_repetition_start = min(start for _, start, _ in t[2:])
    print(f"{name}: first repetition ends {first_repetition_end}, second repetition starts {second_repetition_start}")
    results[flatten] = second_repetition_start < first_repetition_end - 1e-9

print("required: what follows the blocks starts only after all of their operations have ended, for all duration assignments")
print("violated (without flatten, with flatten):", results[False], results[True])
violated = results[True]
print("VIOLATION" if violated else "holds")
sys.exit(1 if violated else 0)
