"""
C04 finding 9 (weak legality: uses copy.deepcopy, which is not library API) -- a deep copy of a circuit contains links
that are == (and hash-equal) to the links of the original: RelationLink is compared by (reference, type, identifier),
the identifier is copied, and sub-circuits compare by value.  The lru_cache of get_start_time then serves the start
time computed for the ORIGINAL circuit to the copy.  After the copy's block was made longer, its follower starts before
the block has ended.
"""
import copy
import sys
import warnings
from qce_circuit import DeclarativeCircuit, Wait, FixedDurationStrategy, RelationLink, RelationType

warnings.simplefilter("ignore")

def wait(q, d, **kw):
    return Wait(q, duration_strategy=FixedDurationStrategy(d), **kw)

circuit = DeclarativeCircuit()
sub = DeclarativeCircuit(); sub.add(wait(0, 2.0))
block = circuit.add(sub)
circuit.add(wait(1, 1.0, relation=RelationLink(block, RelationType.FOLLOWED_BY)))

variant = copy.deepcopy(circuit)
variant_block = variant.composite_operations[0]
variant_block.add(wait(0, 10.0))   # invalidates the memo; the order of the two evaluations below matters

print("original:", [(op.channel_identifiers[0].id, op.start_time, op.end_time) for op in circuit.operations], "duration", circuit.duration)
ops = variant.operations
print("variant :", [(op.channel_identifiers[0].id, op.start_time, op.end_time) for op in ops], "duration", variant.duration)
block_end = max(op.end_time for op in variant_block.decomposed_operations())
y = [op for op in ops if op.channel_identifiers[0].id == 1][0]
print(f"variant: block ends at {block_end}, Y (FOLLOWED_BY block) starts at {y.start_time}")
violated = y.start_time < block_end - 1e-9
print("VIOLATION" if violated else "holds")
sys.exit(1 if violated else 0)
