"""
C04 finding 1 -- flatten() loses a relation that points at an EMPTY sub-circuit; the follower block then starts
before the preceding block has ended.

Build (only DeclarativeCircuit.add / get_last_entry / flatten):
  block1 = [Wait(q0, 2.0), Wait(q1, 0.5)]
  block2 = [<empty sub-circuit>, Wait(q1, 1.0) FOLLOWED_BY get_last_entry()]     (the last entry is the empty sub-circuit)
  circuit = [block1, block2]          block2 shares q1 with block1 -> the library schedules it FOLLOWED_BY block1
No operation of block1 starts before block1's first operations, so everything in block2 must start at/after t=2.0.
"""
import sys
import warnings
from qce_circuit import DeclarativeCircuit, Wait, FixedDurationStrategy, RelationLink, RelationType

warnings.simplefilter("ignore")

circuit = DeclarativeCircuit()
block1 = DeclarativeCircuit()
block1.add(Wait(0, duration_strategy=FixedDurationStrategy(2.0)))
block1.add(Wait(1, duration_strategy=FixedDurationStrategy(0.5)))
added_block1 = circuit.add(block1)

block2 = DeclarativeCircuit()
block2.add(DeclarativeCircuit())  # e.g. an optional part of a library routine that turned out empty
block2.add(Wait(1, duration_strategy=FixedDurationStrategy(1.0), relation=RelationLink(block2.get_last_entry(), RelationType.FOLLOWED_BY)))
added_block2 = circuit.add(block2)

assert added_block2.relation_link.reference_node is added_block1
assert added_block2.relation_link.relation_type == RelationType.FOLLOWED_BY

block1_ops = added_block1.decomposed_operations()
follower = added_block2.decomposed_operations()[0]
block1_end_before = max(op.end_time for op in block1_ops)
follower_start_before = follower.start_time
print(f"before flatten: block1 ends at {block1_end_before}, follower (block2's operation) starts at {follower_start_before}, circuit duration {circuit.duration}")

flat = circuit.flatten()
block1_end_after = max(op.end_time for op in block1_ops)
follower_start_after = follower.start_time
print(f"after flatten : block1 ends at {block1_end_after}, follower starts at {follower_start_after}, circuit duration {flat.duration}")
print("operations after flatten:", [(op.channel_identifiers[0].id, op.start_time, op.end_time) for op in flat.operations])
print("required: the follower starts only after all operations of block1 have ended (>= 2.0), before and after flatten")

violated = follower_start_after < block1_end_after - 1e-9
print("VIOLATION" if violated else "holds")
sys.exit(1 if violated else 0)
