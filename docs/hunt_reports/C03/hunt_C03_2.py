"""
C03 finding 2: reading the operation listing (with times) before `flatten()` changes the order of the
operation listing after the flatten, and with it the circuit-level acquisition indices, the stim export
(measurement record order) and - for operations added afterwards - start times and the circuit duration.

No empty sub-circuits, no repetition, default duration settings. Same root cause as hunt_C03_1.py.

Run:  cd /tmp/hunt-C03 && PYTHONPATH=/tmp/hunt-C03/src /venv/bin/python hunt_C03_2.py
"""
import io
import sys
import contextlib
import warnings
from qce_circuit import (
    DeclarativeCircuit, RelationLink, RelationType, FixedDurationStrategy,
    Wait, Rx180, Rx90, Ry90, Barrier, DispersiveMeasure,
)
from qce_circuit.addon_stim import to_stim

warnings.simplefilter('ignore')


def build(observe_before_flatten: bool) -> DeclarativeCircuit:
    main = DeclarativeCircuit()
    # Block S: second operation ends together with the first one, but is longer (starts earlier than the block head)
    block_s = DeclarativeCircuit()
    a = block_s.add(Wait(0, duration_strategy=FixedDurationStrategy(1.0)))
    block_s.add(Wait(1, duration_strategy=FixedDurationStrategy(3.0), relation=RelationLink(a, RelationType.JOINED_END)))
    added_s = main.add(block_s)
    # Block T follows S
    block_t = DeclarativeCircuit()
    block_t.add(Rx180(0))
    block_t.add(Ry90(0))
    block_t.add(Wait(2, duration_strategy=FixedDurationStrategy(2.5)))
    main.add(block_t)
    # Measurement on qubit 2 follows block T, measurement on qubit 3 follows a gate that follows block S
    main.add(DispersiveMeasure(2, acquisition_strategy=main.get_acquisition_strategy()))
    z = main.add(Rx90(3, relation=RelationLink(added_s, RelationType.FOLLOWED_BY)))
    main.add(DispersiveMeasure(3, acquisition_strategy=main.get_acquisition_strategy(), relation=RelationLink(z, RelationType.FOLLOWED_BY)))
    if observe_before_flatten:
        _ = [(op.start_time, op.end_time) for op in main.operations]  # <-- the only difference between the histories
    with contextlib.redirect_stderr(io.StringIO()):  # silence tqdm bar of flatten
        main.flatten()
    # Mutations after the flatten (identical in both histories)
    main.add(Barrier([2, 3]))
    main.add(Rx180(3))
    return main


def report(circuit: DeclarativeCircuit):
    listing = []
    for op in circuit.operations:
        entry = [type(op).__name__, [c.id for c in op.channel_identifiers], round(op.start_time, 9), round(op.end_time, 9)]
        if isinstance(op, DispersiveMeasure):
            entry.append(('circuit_level_acquisition_index', op.circuit_level_acquisition_index))
        listing.append(tuple(map(str, entry)))
    return listing, str(to_stim(circuit)), round(circuit.duration, 9)


if __name__ == '__main__':
    silent = report(build(observe_before_flatten=False))
    listed = report(build(observe_before_flatten=True))
    print("history A = no observation before flatten | history B = operations + times read before flatten")
    for x, y in zip(silent[0], listed[0]):
        print("   ", x, "|", y, "" if x == y else "   <-- differs")
    print("stim A:", silent[1].replace("\n", " ; "))
    print("stim B:", listed[1].replace("\n", " ; "))
    print("duration A:", silent[2], " duration B:", listed[2])
    print("Property C03 requires: identical listing, acquisition indices, stim program, times and duration.")
    if silent != listed:
        print("VIOLATION: reading the operation listing before flatten() changed what the circuit reports afterwards.")
        sys.exit(1)
    print("no violation observed")
