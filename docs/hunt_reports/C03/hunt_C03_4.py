"""
C03 finding 4: after `flatten()` of a circuit that has a relation of its own, the start times of its operations
(read through the handles returned by `add` / `get_last_entry()`) are reported in another time frame until the
operation listing is read once; reading the listing shifts them back.

Run:  cd /tmp/hunt-C03 && PYTHONPATH=/tmp/hunt-C03/src /venv/bin/python hunt_C03_4.py
"""
import io
import sys
import contextlib
import warnings
from qce_circuit import (
    DeclarativeCircuit, RelationLink, RelationType, FixedDurationStrategy, Wait, Rx180, Ry90,
)

warnings.simplefilter('ignore')

if __name__ == '__main__':
    reference = Wait(0, duration_strategy=FixedDurationStrategy(5.0))
    circuit = DeclarativeCircuit(relation=RelationLink(reference, RelationType.FOLLOWED_BY))
    first = circuit.add(Rx180(0))
    circuit.add(Ry90(0))
    built = (first.start_time, circuit.get_last_entry().start_time, circuit.start_time, circuit.duration)
    with contextlib.redirect_stderr(io.StringIO()):  # silence tqdm bar of flatten
        circuit.flatten()
    flattened = (first.start_time, circuit.get_last_entry().start_time, circuit.start_time, circuit.duration)
    _ = circuit.operations  # pure query
    listed = (first.start_time, circuit.get_last_entry().start_time, circuit.start_time, circuit.duration)
    print("(first.start_time, last_entry.start_time, circuit.start_time, circuit.duration)")
    print("   after building           :", built)
    print("   after flatten()          :", flattened)
    print("   after reading .operations:", listed)
    print("Property C03 requires: the values after flatten() do not change by reading the operation listing.")
    if flattened != listed:
        print("VIOLATION: start times reported after flatten() depend on whether the operation listing was read.")
        sys.exit(1)
    print("no violation observed")
