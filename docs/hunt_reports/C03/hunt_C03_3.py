"""
C03 finding 3: a circuit whose own relation is JOINED_END and which contains a nested sub-circuit reports another
duration / start time (and other start / duration of the nested block) after its operation listing has been read.

Part 1: stand-alone circuit (DeclarativeCircuit API only).
Part 2: the same block placed in a parent circuit through the public composite API (`circuit_structure.add`),
        observed through `composite_operations`.

Run:  cd /tmp/hunt-C03 && PYTHONPATH=/tmp/hunt-C03/src /venv/bin/python hunt_C03_3.py
"""
import sys
import warnings
from qce_circuit import (
    DeclarativeCircuit, RelationLink, RelationType, FixedDurationStrategy, Wait, Rx180, Ry90,
)

warnings.simplefilter('ignore')


def nested_block() -> DeclarativeCircuit:
    block = DeclarativeCircuit()
    block.add(Rx180(1))                                                # head, 1.0 long
    block.add(Wait(2, duration_strategy=FixedDurationStrategy(0.7)))   # head, 0.7 long
    block.add(Ry90(2))                                                 # follows the wait
    return block


if __name__ == '__main__':
    violated = False

    # --- Part 1 ---
    reference = Wait(0, duration_strategy=FixedDurationStrategy(5.0))
    circuit = DeclarativeCircuit(relation=RelationLink(reference, RelationType.JOINED_END))
    nested = circuit.add(nested_block())
    before = (circuit.start_time, circuit.duration, nested.start_time, nested.duration)
    _ = circuit.operations  # pure query
    after = (circuit.start_time, circuit.duration, nested.start_time, nested.duration)
    print("Part 1 (circuit.start_time, circuit.duration, nested.start_time, nested.duration)")
    print("   before reading circuit.operations:", before)
    print("   after  reading circuit.operations:", after)
    violated |= before != after

    # --- Part 2 ---
    main = DeclarativeCircuit()
    x = main.add(Wait(0, duration_strategy=FixedDurationStrategy(5.0)))
    sub = DeclarativeCircuit(relation=RelationLink(x, RelationType.JOINED_END))
    sub.add(nested_block())
    main.circuit_structure.add(sub.circuit_structure)
    before = [(round(c.start_time, 9), round(c.duration, 9)) for c in main.composite_operations]
    _ = main.operations  # pure query
    after = [(round(c.start_time, 9), round(c.duration, 9)) for c in main.composite_operations]
    print("Part 2 (start_time, duration) of main.composite_operations")
    print("   before reading main.operations:", before)
    print("   after  reading main.operations:", after)
    violated |= before != after

    print("Property C03 requires: the same values before and after the listing is read (nothing was mutated in between).")
    if violated:
        print("VIOLATION: reading the operation listing changed duration / start time.")
        sys.exit(1)
    print("no violation observed")
