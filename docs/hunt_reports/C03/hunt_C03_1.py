"""
C03 finding 1: reading `duration` once before `flatten()` changes every time reported after the flatten.

Two identical build sequences (public API only). The only difference: history B reads `circuit.duration`
(a pure query) right before `circuit.flatten()`. Property C03 requires identical reports afterwards.

Run:  cd /tmp/hunt-C03 && PYTHONPATH=/tmp/hunt-C03/src /venv/bin/python hunt_C03_1.py
"""
import io
import sys
import contextlib
import warnings
from qce_circuit import (
    DeclarativeCircuit, RelationLink, RelationType, FixedDurationStrategy, FixedRepetitionStrategy, Wait,
)

warnings.simplefilter('ignore')


def build(observe_before_flatten: bool) -> DeclarativeCircuit:
    main = DeclarativeCircuit()
    outer = DeclarativeCircuit(repetition_strategy=FixedRepetitionStrategy(3))
    inner = DeclarativeCircuit(repetition_strategy=FixedRepetitionStrategy(2))
    inner.add(DeclarativeCircuit())  # an (empty) sub-circuit in front
    m = inner.add(Wait(0, duration_strategy=FixedDurationStrategy(0.5)))
    inner.add(Wait(1, duration_strategy=FixedDurationStrategy(1.0), relation=RelationLink(m, RelationType.JOINED_END)))
    outer.add(inner)
    main.add(outer)
    with contextlib.redirect_stderr(io.StringIO()):  # silence tqdm bar of flatten
        main.apply_modifiers()
        if observe_before_flatten:
            _ = main.duration  # <-- the only difference between the two histories
        main.flatten()
    return main


def report(circuit: DeclarativeCircuit):
    return (
        [(type(op).__name__, op.channel_identifiers[0].id, round(op.start_time, 9), round(op.end_time, 9)) for op in circuit.operations],
        round(circuit.duration, 9),
    )


if __name__ == '__main__':
    silent = report(build(observe_before_flatten=False))
    queried = report(build(observe_before_flatten=True))
    print("history A (no query before flatten): duration =", silent[1])
    print("history B (duration read before flatten): duration =", queried[1])
    for a, b in zip(silent[0], queried[0]):
        print("   ", a, b, "" if a == b else "   <-- differs")
    print("Property C03 requires: identical operation listing / times / duration in both histories.")
    if silent != queried:
        print("VIOLATION: a `duration` query before flatten() changed the start/end times and the duration reported afterwards.")
        sys.exit(1)
    print("no violation observed")
