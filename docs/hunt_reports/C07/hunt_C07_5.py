"""
hunt_C07_5: the filters get_acquisition_indices(qubit_index=...) / get_acquisition_indices(tag=...) cannot be called
with the parameter names of their signature, nor with a numpy integer qubit index: NotImplementedError.

Run:  cd /tmp/hunt-C07 && PYTHONPATH=/tmp/hunt-C07/src /venv/bin/python hunt_C07_5.py

Legality: declared signatures `get_acquisition_indices(self, qubit_index: int)` and
`get_acquisition_indices(self, tag: AcquisitionTag)` (language/declarative_circuit.py, intrf_declarative_circuit.py);
the decorators are written as @dispatch(qubit_index=int) / @dispatch(tag=AcquisitionTag).
Qubit indices held in numpy arrays are ordinary (np.asarray is what the filter itself returns).
"""
import sys
import warnings
warnings.simplefilter('ignore')
import numpy as np
from qce_circuit import DeclarativeCircuit, DispersiveMeasure
from qce_circuit.structure.intrf_acquisition_operation import AcquisitionTag

circuit = DeclarativeCircuit()
circuit.add(DispersiveMeasure(0, acquisition_strategy=circuit.get_acquisition_strategy(), acquisition_tag='a'))
circuit.add(DispersiveMeasure(0, acquisition_strategy=circuit.get_acquisition_strategy(), acquisition_tag='b'))
circuit = circuit.apply_modifiers()
print("positional int :", list(circuit.get_acquisition_indices(0)))
print("positional tag :", list(circuit.get_acquisition_indices(AcquisitionTag(0, 'b'))))

failures = []
for label, call in (
    ("get_acquisition_indices(qubit_index=0)", lambda: circuit.get_acquisition_indices(qubit_index=0)),
    ("get_acquisition_indices(tag=AcquisitionTag(0, 'b'))", lambda: circuit.get_acquisition_indices(tag=AcquisitionTag(0, 'b'))),
    ("get_acquisition_indices(np.int64(0))", lambda: circuit.get_acquisition_indices(np.int64(0))),
    ("get_acquisition_indices(np.arange(1)[0])", lambda: circuit.get_acquisition_indices(np.arange(1)[0])),
):
    try:
        print(f"{label} -> {list(call())}")
    except Exception as error:  # noqa
        print(f"{label} -> {type(error).__name__}: {error}")
        failures.append(label)

print()
print("PROPERTY C07 requires: filtering by qubit or by (qubit, tag) returns precisely the indices of the matching measurements.")
if failures:
    print(f"VIOLATION: {len(failures)} legal call forms raise instead of returning [0, 1] / [1].")
    sys.exit(1)
print("no violation")
sys.exit(0)
