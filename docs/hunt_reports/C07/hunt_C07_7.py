"""
hunt_C07_7 (adjacent, medium-low confidence): a sub-circuit with 0 repetitions is listed (and indexed, and exported)
once after apply_modifiers(), while the stim export of the same circuit before apply_modifiers() omits it.
The unrolled program should contain N = 1 measurement, the library enumerates 2.

Run:  cd /tmp/hunt-C07 && PYTHONPATH=/tmp/hunt-C07/src /venv/bin/python hunt_C07_7.py

Legality: FixedRepetitionStrategy(repetitions: int); the library itself builds a 0-times repeated sub-circuit in
construct_repetition_code_circuit_simplified(qec_cycles=0)  (FixedRepetitionStrategy(repetitions=qec_cycles)).
"""
import sys
import warnings
warnings.simplefilter('ignore')
from qce_circuit import (
    DeclarativeCircuit, DispersiveMeasure, FixedRepetitionStrategy, InitialStateContainer, InitialStateEnum,
    construct_repetition_code_circuit_simplified,
)
from qce_circuit.addon_stim import to_stim


def record(stim_circuit):
    result = []
    for instruction in stim_circuit.flattened():
        if instruction.name in ('M', 'MZ'):
            result.extend(target.value for target in instruction.targets_copy())
    return result


top = DeclarativeCircuit()
sub = DeclarativeCircuit(repetition_strategy=FixedRepetitionStrategy(0))
sub.add(DispersiveMeasure(1, acquisition_strategy=sub.get_acquisition_strategy(), acquisition_tag='never'))
top.add(sub)
top.add(DispersiveMeasure(0, acquisition_strategy=top.get_acquisition_strategy(), acquisition_tag='once'))
record_raw = record(to_stim(top))
modified = top.apply_modifiers()
record_modified = record(to_stim(modified))
listed = [(op.qubit_index, op.acquisition_tag, op.circuit_level_acquisition_index) for op in modified.operations if isinstance(op, DispersiveMeasure)]
print("measured qubits in the record, export before apply_modifiers():", record_raw)
print("measured qubits in the record, export after  apply_modifiers():", record_modified)
print("listed measurements after apply_modifiers() (qubit, tag, circuit-level index):", listed)

state = InitialStateContainer.from_ordered_list([InitialStateEnum.ZERO, InitialStateEnum.ZERO])
library_circuit = construct_repetition_code_circuit_simplified(qec_cycles=0, initial_state=state)
library_raw = record(to_stim(library_circuit))
library_modified = record(to_stim(library_circuit.apply_modifiers()))
print("library, qec_cycles=0: record before apply_modifiers():", library_raw, " after:", library_modified)

print()
print("PROPERTY C07 requires (repetitions unrolled): indices 0..N-1 enumerate exactly the measurements of the program,")
print("which is also their position in the exported measurement record. A 0-times repeated sub-circuit contributes none.")
if record_raw != record_modified or library_raw != library_modified:
    print("VIOLATION: the 0-times repeated measurement obtains circuit-level index 0 and shifts the record position of the others.")
    sys.exit(1)
print("no violation")
sys.exit(0)
