"""
hunt_C07_3: a sub-circuit handed to the public entry point DeclarativeCircuit.add_operation (instead of .add /
.add_sub_circuit) is nested without re-targeting its acquisition registry: circuit-level and per-qubit indices
repeat, filters return duplicates and tags do not partition.

Run:  cd /tmp/hunt-C07 && PYTHONPATH=/tmp/hunt-C07/src /venv/bin/python hunt_C07_3.py

Legality: IDeclarativeCircuit.add_operation(operation: ICircuitOperation) is a public interface method
("Adds operation to circuit"); CircuitCompositeOperation is an ICircuitOperation, DeclarativeCircuit.circuit_structure
is a public property. The measurements are created against the registry of a sub-circuit that is later nested.
The same happens with top.circuit_structure.add(sub.circuit_structure) and with .add(...) on the copy returned by top.add(sub).
"""
import sys
import warnings
warnings.simplefilter('ignore')
from qce_circuit import DeclarativeCircuit, DispersiveMeasure
from qce_circuit.structure.intrf_acquisition_operation import AcquisitionTag

top = DeclarativeCircuit()
top.add(DispersiveMeasure(0, acquisition_strategy=top.get_acquisition_strategy(), acquisition_tag='top'))
sub = DeclarativeCircuit()
sub.add(DispersiveMeasure(0, acquisition_strategy=sub.get_acquisition_strategy(), acquisition_tag='sub'))
sub.add(DispersiveMeasure(1, acquisition_strategy=sub.get_acquisition_strategy(), acquisition_tag='sub'))
top.add_operation(sub.circuit_structure)      # public entry point, nests the sub-circuit as it is

circuit = top.apply_modifiers()
measures = [op for op in circuit.operations if isinstance(op, DispersiveMeasure)]
circuit_level = [op.circuit_level_acquisition_index for op in measures]
qubit0 = [op.acquisition_index for op in measures if op.qubit_index == 0]
print("measurements in list order (qubit, tag):", [(op.qubit_index, op.acquisition_tag) for op in measures])
print("circuit-level indices:", circuit_level, " required:", list(range(len(measures))))
print("qubit 0 indices      :", qubit0, " required:", list(range(len(qubit0))))
by_tag_top = list(circuit.get_acquisition_indices(AcquisitionTag(0, 'top')))
by_tag_sub = list(circuit.get_acquisition_indices(AcquisitionTag(0, 'sub')))
print("get_acquisition_indices(0):", list(circuit.get_acquisition_indices(0)), " tag 'top':", by_tag_top, " tag 'sub':", by_tag_sub)

violated = circuit_level != list(range(len(measures))) or qubit0 != list(range(len(qubit0))) or set(by_tag_top) & set(by_tag_sub)
print()
print("PROPERTY C07 requires: circuit-level indices exactly 0..N-1 and per-qubit indices exactly 0..n_q-1 in list order,")
print("filters return precisely the matching indices and tags partition each qubit's indices.")
if violated:
    print("VIOLATION: indices restart at 0 inside the nested sub-circuit (duplicates 0, 0), tag filters 'top' and 'sub' both return [0].")
    sys.exit(1)
print("no violation")
sys.exit(0)
