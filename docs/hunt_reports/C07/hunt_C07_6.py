"""
hunt_C07_6 (low confidence): DispersiveMeasure is a mutable dataclass (frozen=False) but freezes qubit and tag
into its acquisition identifier at construction. After `measure.qubit_index = 1` / `measure.acquisition_tag = 'y'`
the operation is scheduled, drawn and exported on qubit 1, while the acquisition filters still count it on qubit 0.

Run:  cd /tmp/hunt-C07 && PYTHONPATH=/tmp/hunt-C07/src /venv/bin/python hunt_C07_6.py

Legality (weak): qubit_index / acquisition_tag are public init fields of a dataclass declared frozen=False;
nothing documents them as read-only. The library itself never re-assigns them.
"""
import sys
import warnings
warnings.simplefilter('ignore')
from qce_circuit import DeclarativeCircuit, DispersiveMeasure
from qce_circuit.addon_stim import to_stim
from qce_circuit.structure.intrf_acquisition_operation import AcquisitionTag

circuit = DeclarativeCircuit()
first = circuit.add(DispersiveMeasure(0, acquisition_strategy=circuit.get_acquisition_strategy(), acquisition_tag='x'))
second = circuit.add(DispersiveMeasure(0, acquisition_strategy=circuit.get_acquisition_strategy(), acquisition_tag='x'))
second.qubit_index = 1            # re-target the measurement before the circuit is used
second.acquisition_tag = 'y'
circuit = circuit.apply_modifiers()

print("measurements (qubit_index, tag, channel):", [(op.qubit_index, op.acquisition_tag, str(op.channel_identifiers[0])) for op in circuit.operations])
print("stim export:", str(to_stim(circuit)).replace('\n', ' ; '))
q0, q1 = list(circuit.get_acquisition_indices(0)), list(circuit.get_acquisition_indices(1))
print("get_acquisition_indices(0) =", q0, " required [0]")
print("get_acquisition_indices(1) =", q1, " required [0]")
print("get_acquisition_indices(AcquisitionTag(1, 'y')) =", list(circuit.get_acquisition_indices(AcquisitionTag(1, 'y'))), " required [0]")
print()
print("PROPERTY C07 requires: filtering by qubit or (qubit, tag) returns precisely the indices of the matching measurements.")
if q0 != [0] or q1 != [0]:
    print("VIOLATION: the measurement exported on qubit 1 is still filtered (and counted) as a qubit-0 measurement.")
    sys.exit(1)
print("no violation")
sys.exit(0)
