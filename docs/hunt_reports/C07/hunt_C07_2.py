"""
hunt_C07_2: DeclarativeCircuit.flatten() re-lists the measurements of an implicitly sequenced, overlap-free
circuit such that (a) the acquisition index of one and the same measurement changes and
(b) per qubit the indices no longer increase with measurement start time.

Run:  cd /tmp/hunt-C07 && PYTHONPATH=/tmp/hunt-C07/src /venv/bin/python hunt_C07_2.py

Only the public API is used (DeclarativeCircuit.add / apply_modifiers / flatten, Wait, DispersiveMeasure).
No relation is passed anywhere. flatten() is used by the library itself on circuits with applied modifiers
(library/repetition_code/circuit_constructors.py: construct_repetition_code_multi_round_circuit).
"""
import sys
import warnings
warnings.simplefilter('ignore')
from qce_circuit import (
    DeclarativeCircuit, Wait, DispersiveMeasure, FixedDurationStrategy,
)


def channel_overlaps(circuit):
    ops = circuit.operations
    result = []
    for i, a in enumerate(ops):
        for b in ops[i + 1:]:
            if a.duration <= 0 or b.duration <= 0:
                continue
            overlap = min(a.end_time, b.end_time) - max(a.start_time, b.start_time)
            if overlap > 1e-9 and any(x == y for x in a.channel_identifiers for y in b.channel_identifiers):
                result.append((a, b))
    return result


def snapshot(circuit, title):
    print(title)
    rows = []
    for op in circuit.operations:
        if isinstance(op, DispersiveMeasure):
            rows.append((op.acquisition_tag, op.acquisition_index, op.circuit_level_acquisition_index, op.start_time))
            print(f"   measurement tag={op.acquisition_tag!r:12s} qubit={op.qubit_index} qubit-level index={op.acquisition_index} circuit-level index={op.circuit_level_acquisition_index} start={op.start_time:g}")
    print(f"   get_acquisition_indices(0) = {list(circuit.get_acquisition_indices(0))}, channel overlaps: {channel_overlaps(circuit)}")
    return rows


top = DeclarativeCircuit()
sub = DeclarativeCircuit()
sub.add(Wait(1, duration_strategy=FixedDurationStrategy(10.0)))          # q1: one long operation
for _ in range(3):
    sub.add(Wait(0, duration_strategy=FixedDurationStrategy(0.1)))       # q0: three short operations ...
sub.add(DispersiveMeasure(0, acquisition_strategy=sub.get_acquisition_strategy(), acquisition_tag='in_sub'))   # ... then measured
top.add(sub)
top.add(DispersiveMeasure(0, acquisition_strategy=top.get_acquisition_strategy(), acquisition_tag='after_sub'))  # follows the sub-circuit

modified = top.apply_modifiers()
before = snapshot(modified, "after apply_modifiers():")
flattened = modified.flatten()
after = snapshot(flattened, "after apply_modifiers().flatten():")

index_before = {tag: index for tag, index, _, _ in before}
index_after = {tag: index for tag, index, _, _ in after}
starts_in_index_order = [start for _, index, _, start in sorted(after, key=lambda row: row[1])]
time_order_broken = any(b <= a for a, b in zip(starts_in_index_order, starts_in_index_order[1:]))
index_changed = index_before != index_after

print()
print("PROPERTY C07 requires: indices enumerate the measurements in order and, per qubit, increase with measurement")
print("start time for implicitly sequenced circuits free of channel overlaps.")
print(f"OBSERVED: index per measurement before flatten {index_before}, after flatten {index_after};")
print(f"          start times in index order after flatten: {starts_in_index_order}")
print(f"          time order broken: {time_order_broken}, index of a measurement changed by flatten(): {index_changed}")
if time_order_broken and not channel_overlaps(flattened):
    print("VIOLATION: after flatten() index 0 belongs to the measurement at t=10 and index 1 to the measurement at t=0.3;")
    print("           the same measurement carries a different index (and record position) before and after flatten().")
    sys.exit(1)
print("no violation")
sys.exit(0)
