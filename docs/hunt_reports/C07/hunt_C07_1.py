"""
hunt_C07_1: per-qubit acquisition indices do not increase with measurement start time
in an implicitly sequenced circuit that is free of channel overlaps.

Run:  cd /tmp/hunt-C07 && PYTHONPATH=/tmp/hunt-C07/src /venv/bin/python hunt_C07_1.py

Only the public API is used: DeclarativeCircuit.add, Wait, Barrier, DispersiveMeasure,
get_acquisition_strategy, apply_modifiers, get_acquisition_indices. No relation is passed anywhere.
"""
import sys
import warnings
warnings.simplefilter('ignore')
from qce_circuit import (
    DeclarativeCircuit, Wait, Barrier, DispersiveMeasure, FixedDurationStrategy,
)


def channel_overlaps(circuit):
    """:return: pairs of operations that share a channel and overlap in time (positive overlap)."""
    ops = circuit.operations
    result = []
    for i, a in enumerate(ops):
        for b in ops[i + 1:]:
            if a.duration <= 0 or b.duration <= 0:
                continue
            overlap = min(a.end_time, b.end_time) - max(a.start_time, b.start_time)
            shares_channel = any(x == y for x in a.channel_identifiers for y in b.channel_identifiers)
            if overlap > 1e-9 and shares_channel:
                result.append((a, b))
    return result


def report(circuit, title):
    print(title)
    for op in circuit.operations:
        extra = ''
        if isinstance(op, DispersiveMeasure):
            extra = f"  tag={op.acquisition_tag!r} qubit-level index={op.acquisition_index} circuit-level index={op.circuit_level_acquisition_index}"
        print(f"   {type(op).__name__:18s} {[str(c) for c in op.channel_identifiers]}  t=[{op.start_time:g}, {op.end_time:g}]{extra}")
    overlaps = channel_overlaps(circuit)
    print(f"   channel overlaps: {overlaps}")
    violated = False
    for qubit in sorted({op.qubit_index for op in circuit.operations if isinstance(op, DispersiveMeasure)}):
        measures = [op for op in circuit.operations if isinstance(op, DispersiveMeasure) and op.qubit_index == qubit]
        indices = [op.acquisition_index for op in measures]
        starts = [op.start_time for op in measures]
        print(f"   qubit {qubit}: get_acquisition_indices -> {list(circuit.get_acquisition_indices(qubit))}, indices in list order {indices}, start times {starts}")
        if any(b <= a for a, b in zip(starts, starts[1:])) and not overlaps:
            violated = True
    return violated


# ---- case A: flat circuit, three qubits, only Wait / Barrier / DispersiveMeasure ----
circuit = DeclarativeCircuit()
circuit.add(Wait(1, duration_strategy=FixedDurationStrategy(10.0)))     # q1 busy until t=10
circuit.add(Barrier([0, 1]))                                            # q0 synchronised with q1 -> t=10
circuit.add(DispersiveMeasure(0, acquisition_strategy=circuit.get_acquisition_strategy(), acquisition_tag='added_first'))
for _ in range(5):                                                      # five short operations on q2 (end at t=0.5)
    circuit.add(Wait(2, duration_strategy=FixedDurationStrategy(0.1)))
circuit.add(Barrier([0, 2]))                                            # attaches behind the q2 chain -> t=0.5
circuit.add(DispersiveMeasure(0, acquisition_strategy=circuit.get_acquisition_strategy(), acquisition_tag='added_second'))
violated_a = report(circuit.apply_modifiers(), "case A (flat circuit, implicit sequencing only):")

# ---- case B: same mechanism with sub-circuits instead of barriers ----
top = DeclarativeCircuit()
z = DeclarativeCircuit()
z.add(Wait(1, duration_strategy=FixedDurationStrategy(10.0)))
z.add(Wait(0, duration_strategy=FixedDurationStrategy(0.1)))
top.add(z)                                                              # sub-circuit on q0, q1: ends at t=10
top.add(DispersiveMeasure(0, acquisition_strategy=top.get_acquisition_strategy(), acquisition_tag='added_first'))
for _ in range(5):
    top.add(Wait(2, duration_strategy=FixedDurationStrategy(0.1)))
x = DeclarativeCircuit()
x.add(Wait(2, duration_strategy=FixedDurationStrategy(0.1)))
x.add(DispersiveMeasure(0, acquisition_strategy=x.get_acquisition_strategy(), acquisition_tag='added_second'))
top.add(x)                                                              # sub-circuit on q0, q2: attaches behind the q2 chain
violated_b = report(top.apply_modifiers(), "case B (sub-circuits, implicit sequencing only):")

print()
print("PROPERTY C07 requires: per qubit, the acquisition indices increase with measurement start time for")
print("implicitly sequenced circuits free of channel overlaps.")
if violated_a or violated_b:
    print(f"OBSERVED: violation (case A: {violated_a}, case B: {violated_b}): index 0 starts later than index 1 and no two operations overlap on a channel.")
    sys.exit(1)
print("OBSERVED: no violation.")
sys.exit(0)
