"""
hunt_C07_4: measurements created against the registry of a sub-circuit that is later nested get index -1 when
they are placed in a sibling sub-circuit - but only if the registry owner does not compare equal to that sibling
(e.g. it has a repetition strategy). With repetitions=1 the identical program is indexed correctly.

Run:  cd /tmp/hunt-C07 && PYTHONPATH=/tmp/hunt-C07/src /venv/bin/python hunt_C07_4.py

Legality: one AcquisitionRegistry shared by several component builders is the pattern of the library itself
(library/repetition_code/circuit_constructors.py passes one `registry` to get_circuit_initialize_with_heralded,
get_circuit_qec_with_detectors and get_circuit_final_measurement, each of which places the measurements in its
own DeclarativeCircuit). Here the shared registry is the one of the (repeated) cycle sub-circuit, which is nested later,
as the quantifier of C07 allows ("registry of the circuit or of a sub-circuit that is later nested").
"""
import sys
import warnings
warnings.simplefilter('ignore')
from qce_circuit import (
    DeclarativeCircuit, DispersiveMeasure, FixedRepetitionStrategy, RegistryAcquisitionStrategy,
)


def build(repetitions: int):
    cycle = DeclarativeCircuit(repetition_strategy=FixedRepetitionStrategy(repetitions))
    registry = cycle.acquisition_registry                     # registry of a sub-circuit that is nested below
    cycle.add(DispersiveMeasure(1, acquisition_strategy=RegistryAcquisitionStrategy(registry), acquisition_tag='parity'))
    final = DeclarativeCircuit()
    final.add(DispersiveMeasure(0, acquisition_strategy=RegistryAcquisitionStrategy(registry), acquisition_tag='final'))
    final.add(DispersiveMeasure(1, acquisition_strategy=RegistryAcquisitionStrategy(registry), acquisition_tag='final'))
    top = DeclarativeCircuit()
    top.add(cycle)
    top.add(final)
    return top.apply_modifiers()


violated = False
for repetitions in (1, 3):
    circuit = build(repetitions)
    measures = [op for op in circuit.operations if isinstance(op, DispersiveMeasure)]
    circuit_level = [op.circuit_level_acquisition_index for op in measures]
    print(f"repetitions={repetitions}: (qubit, tag, qubit-level, circuit-level) =",
          [(op.qubit_index, op.acquisition_tag, op.acquisition_index, op.circuit_level_acquisition_index) for op in measures])
    print(f"   get_acquisition_indices(1) = {list(circuit.get_acquisition_indices(1))}")
    if circuit_level != list(range(len(measures))):
        violated = True

print()
print("PROPERTY C07 requires: every measurement has circuit-level index 0..N-1 and per-qubit index 0..n_q-1 in list order.")
if violated:
    print("VIOLATION: with repetitions=3 the two 'final' measurements report index -1 / -1 (not found in their registry),")
    print("           with repetitions=1 the same program is indexed 0, 1, 2.")
    sys.exit(1)
print("no violation")
sys.exit(0)
