"""
hunt_C17_1: IRepetitionCodeDescription.to_sequence() attaches the parity groups of Repetition9Code
to every derived layout, whatever shipped layout the description was derived from.

Run:  cd /tmp/hunt-C17 && PYTHONPATH=/tmp/hunt-C17/src /venv/bin/python hunt_C17_1.py
Exit code 1 when the violation shows.
"""
import sys
from typing import List
from qce_circuit.connectivity.intrf_channel_identifier import QubitIDObj, EdgeIDObj
from qce_circuit.connectivity.connectivity_surface_code import Surface17Layer
from qce_circuit.library.repetition_code.repetition_code_connectivity import Repetition5Round4Code
from qce_circuit.library.repetition_code.circuit_components import RepetitionCodeDescription


def parity_report(layout) -> List[str]:
    """Clause: over one full sequence every ancilla-data edge of every parity group is exercised exactly once
    (and every gate of the sequence is an ancilla-data edge of some parity group)."""
    problems: List[str] = []
    gates = [op.identifier for i in range(layout.gate_sequence_count) for op in layout.get_gate_sequence_at_index(i).gate_operations]
    groups = layout.parity_group_x + layout.parity_group_z
    for group in groups:
        for edge in group.edge_ids:
            count = sum(1 for gate in gates if gate == edge)
            if count != 1:
                problems.append(f"parity edge {edge} (ancilla {group.ancilla_id}) exercised {count}x")
    group_edges = [edge for group in groups for edge in group.edge_ids]
    for gate in gates:
        if gate not in group_edges:
            problems.append(f"gate {gate} is not an ancilla-data edge of any parity group of the layout")
    return problems


layout = Repetition5Round4Code()  # shipped layout
# Every qubit of the device is involved: nothing is filtered away, the description is the complete layout.
involved = Surface17Layer().qubit_ids
description = RepetitionCodeDescription.from_connectivity(involved_qubit_ids=involved, connectivity=layout)
derived = description.to_sequence()  # "Trivial conversion from circuit description to gate sequence (layout)"

same_gates = all(
    derived.get_gate_sequence_at_index(i).gate_operations == layout.get_gate_sequence_at_index(i).gate_operations
    for i in range(layout.gate_sequence_count)
)
print("derived layout has the same gates per layer as the shipped layout:", same_gates)

source_problems = parity_report(layout)
derived_problems = parity_report(derived)
print(f"shipped Repetition5Round4Code          : {len(source_problems)} parity-clause problems")
print(f"description.to_sequence() of the same  : {len(derived_problems)} parity-clause problems")
for line in derived_problems:
    print("   ", line)

x3 = QubitIDObj('X3')
print("parity group of X3 in shipped layout   :", [g.data_ids for g in layout.get_parity_group(x3)])
print("parity group of X3 in the description  :", [g.data_ids for g in description.get_parity_group(x3)])
print("parity group of X3 in derived layout   :", [g.data_ids for g in derived.get_parity_group(x3)])
print("data qubits shipped :", sorted(q.id for q in layout.data_qubit_ids), " ancilla:", sorted(q.id for q in layout.ancilla_qubit_ids))
print("data qubits derived :", sorted(q.id for q in derived.data_qubit_ids), " ancilla:", sorted(q.id for q in derived.ancilla_qubit_ids))

# Consequence: a description taken from the converted layout is no longer the one of the shipped layout.
chain = [QubitIDObj(n) for n in ['D3', 'Z2', 'D6', 'Z4', 'D5', 'Z1', 'D4', 'X3', 'D7']]
first = RepetitionCodeDescription.from_connectivity(involved_qubit_ids=chain, connectivity=layout)
second = RepetitionCodeDescription.from_connectivity(involved_qubit_ids=chain, connectivity=first.to_sequence())
g1 = [q.id for q in first.get_parity_group(x3)[0].data_ids]
g2 = [q.id for q in second.get_parity_group(x3)[0].data_ids]
print("distance-5 chain, X3 parity data qubits: from shipped layout", g1, "/ via to_sequence()", g2,
      "(D8 is not even part of the chain)" if 'D8' in g2 else "")

print()
print("REQUIRED (C17): in a layout, over one full sequence every ancilla-data edge of every parity group is")
print("exercised exactly once; a layout obtained from a description of a shipped layout must stay executable")
print("in that sense. The shipped Repetition5Round4Code satisfies it, its to_sequence() image does not.")
violated = len(source_problems) == 0 and len(derived_problems) > 0
sys.exit(1 if violated else 0)
