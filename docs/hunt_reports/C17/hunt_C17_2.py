"""
hunt_C17_2: CompositeRepetitionCodeDescription answers get_parity_group() from `_connectivity`
(documented as "used for determining dynamic parking operations") instead of from the description it wraps.
With a base description derived from one shipped layout and another shipped layout handed in for parking,
the composite's gates and the composite's parity groups no longer belong together.

Run:  cd /tmp/hunt-C17 && PYTHONPATH=/tmp/hunt-C17/src /venv/bin/python hunt_C17_2.py
Exit code 1 when the violation shows.
"""
import sys
from qce_circuit.connectivity.intrf_channel_identifier import QubitIDObj
from qce_circuit.library.repetition_code.repetition_code_connectivity import Repetition5Round4Code, Repetition9Code
from qce_circuit.library.repetition_code.circuit_components import RepetitionCodeDescription, CompositeRepetitionCodeDescription
from qce_circuit.library.repetition_code.circuit_constructors import construct_repetition_code_circuit
from qce_circuit.language import InitialStateContainer, InitialStateEnum

chain = [QubitIDObj(n) for n in ['D3', 'Z2', 'D6', 'Z4', 'D5', 'Z1', 'D4', 'X3', 'D7']]
index_map = {qubit_id: i for i, qubit_id in enumerate(chain)}
base = RepetitionCodeDescription.from_connectivity(involved_qubit_ids=chain, connectivity=Repetition5Round4Code())


def parity_problems(description):
    gates = [op.identifier for layer in description.gate_sequences for op in layer.gate_operations]
    problems = []
    for gate in gates:
        groups = [g for g in description.get_parity_group(gate)]
        if len(groups) != 1:
            problems.append(f"gate {gate}: part of {len(groups)} parity groups of the description")
    for ancilla in description.ancilla_qubit_ids:
        for group in description.get_parity_group(ancilla):
            if group.ancilla_id != ancilla:
                continue
            for edge in group.edge_ids:
                count = sum(1 for gate in gates if gate == edge)
                if count != 1:
                    problems.append(f"parity edge {edge} of ancilla {ancilla} exercised {count}x")
    return problems


def build(description):
    try:
        construct_repetition_code_circuit(
            qec_cycles=1, description=description,
            initial_state=InitialStateContainer.from_ordered_list([InitialStateEnum.ZERO] * 5),
        )
        return "circuit constructed"
    except Exception as e:
        return f"{type(e).__name__}: {e}"


results = {}
for name, layout in [('Repetition5Round4Code', Repetition5Round4Code()), ('Repetition9Code', Repetition9Code())]:
    composite = CompositeRepetitionCodeDescription(
        _base_description=base,
        _qubit_index_map=index_map,
        _connectivity=layout,  # "Connectivity layer used for determining dynamic parking operations."
    )
    same_layers = composite.gate_sequences == base.gate_sequences
    problems = parity_problems(composite)
    results[name] = problems
    print(f"_connectivity={name}: gate/park layers identical to base: {same_layers}; parity-clause problems: {len(problems)}")
    for line in problems:
        print("    ", line)
    print("     X3 parity data qubits:", [q.id for q in composite.get_parity_group(QubitIDObj('X3'))[0].data_ids],
          "| construct_repetition_code_circuit ->", build(composite))
print("base description: parity-clause problems:", len(parity_problems(base)), "| construct_repetition_code_circuit ->", build(base))

print()
print("REQUIRED (C17): for a (composite) description derived from a shipped layout every ancilla-data edge of every")
print("parity group is exercised exactly once over the sequence. Parking is computed identically for every shipped")
print("layout (all delegate to Surface17Layer), yet the choice of `_connectivity` silently replaces the parity groups.")
violated = len(results['Repetition5Round4Code']) == 0 and len(results['Repetition9Code']) > 0
sys.exit(1 if violated else 0)
