"""
C08 finding 1: a repetition count of 0 is exported as 0 copies, but unrolled (apply_modifiers) as 1 copy.
Run: cd /tmp/hunt-C08 && PYTHONPATH=/tmp/hunt-C08/src /venv/bin/python hunt_C08_1.py
"""
import sys, warnings, collections
warnings.filterwarnings('ignore')
import stim
from qce_circuit import (
    DeclarativeCircuit, FixedRepetitionStrategy, Hadamard, Rx180, DispersiveMeasure,
    InitialStateContainer, InitialStateEnum, construct_repetition_code_circuit_simplified,
)
from qce_circuit.addon_stim import to_stim


def unroll(circuit):
    for ins in circuit:
        if isinstance(ins, stim.CircuitRepeatBlock):
            body = list(unroll(ins.body_copy()))
            for _ in range(ins.repeat_count):
                yield from body
        else:
            yield ins


def per_target(circuit):
    """Instruction list, REPEAT blocks expanded, fused instructions split per target (group)."""
    out = []
    for ins in unroll(circuit):
        t = [x.value for x in ins.targets_copy()]
        a = tuple(ins.gate_args_copy())
        if ins.name == 'CZ':
            out += [(ins.name, (t[i], t[i + 1]), a) for i in range(0, len(t), 2)]
        elif ins.name in ('DETECTOR', 'OBSERVABLE_INCLUDE', 'TICK', 'SHIFT_COORDS'):
            out.append((ins.name, tuple(t), a))
        else:
            out += [(ins.name, (x,), a) for x in t]
    return out


violated = False

# --- (a) library-built circuit, library call site creates FixedRepetitionStrategy(repetitions=qec_cycles) with qec_cycles=0
initial_state = InitialStateContainer.from_ordered_list([InitialStateEnum.ZERO, InitialStateEnum.ONE, InitialStateEnum.ZERO])
before = to_stim(construct_repetition_code_circuit_simplified(qec_cycles=0, initial_state=initial_state))
after = to_stim(construct_repetition_code_circuit_simplified(qec_cycles=0, initial_state=initial_state).apply_modifiers())
print("(a) construct_repetition_code_circuit_simplified(qec_cycles=0)")
print("export before unrolling:\n" + str(before))
print("export after unrolling (apply_modifiers):\n" + str(after))
print(f"measurements before={before.num_measurements} after={after.num_measurements}")
if per_target(before) != per_target(after) or before.num_measurements != after.num_measurements:
    print("VIOLATION: library-built circuit must export to the identical program before/after unrolling "
          "(same multiset, same number of measurements).")
    violated = True

# --- (b) hand-built circuit
def build():
    circuit = DeclarativeCircuit()
    sub = DeclarativeCircuit(repetition_strategy=FixedRepetitionStrategy(repetitions=0))
    sub.add(Rx180(0))
    sub.add(DispersiveMeasure(0, acquisition_strategy=circuit.get_acquisition_strategy()))
    circuit.add(Hadamard(0))
    circuit.add(sub)
    circuit.add(Hadamard(0))
    return circuit

before = to_stim(build())
after = to_stim(build().apply_modifiers())
print("\n(b) sub-circuit [X 0, M 0] with repetition count 0 between two H 0")
print("before:", repr(str(before)), " after:", repr(str(after)))
if collections.Counter(per_target(before)) != collections.Counter(per_target(after)) or before.num_measurements != after.num_measurements:
    print("VIOLATION: multiset of instructions / number of measurements differs before vs after unrolling "
          f"({before.num_measurements} vs {after.num_measurements} measurements).")
    violated = True

sys.exit(1 if violated else 0)
