"""
C08 finding 3: unrolling is silently truncated at graph depth 5000, the REPEAT-based export is not.
Default: hand-built circuit (sub-circuit of 25 sequential X gates + 1 measurement, repetition count 210), ~30 s.
With argument `library`: construct_repetition_code_circuit_simplified(qec_cycles=5000), ~60 s.
Run: cd /tmp/hunt-C08 && PYTHONPATH=/tmp/hunt-C08/src /venv/bin/python hunt_C08_3.py [library]
"""
import sys, warnings, collections
warnings.filterwarnings('ignore')
import stim
from qce_circuit import (
    DeclarativeCircuit, FixedRepetitionStrategy, Rx180, DispersiveMeasure,
    InitialStateContainer, InitialStateEnum, construct_repetition_code_circuit_simplified,
)
from qce_circuit.addon_stim import to_stim


def unroll(circuit):
    for ins in circuit:
        if isinstance(ins, stim.CircuitRepeatBlock):
            body = list(unroll(ins.body_copy()))
            for _ in range(ins.repeat_count):
                yield from body
        else:
            yield ins


def per_target(circuit):
    """Instruction list, REPEAT blocks expanded, fused instructions split per target (group)."""
    out = []
    for ins in unroll(circuit):
        t = [x.value for x in ins.targets_copy()]
        a = tuple(ins.gate_args_copy())
        if ins.name == 'CZ':
            out += [(ins.name, (t[i], t[i + 1]), a) for i in range(0, len(t), 2)]
        elif ins.name in ('DETECTOR', 'OBSERVABLE_INCLUDE', 'TICK', 'SHIFT_COORDS'):
            out.append((ins.name, tuple(t), a))
        else:
            out += [(ins.name, (x,), a) for x in t]
    return out



def build_custom():
    circuit = DeclarativeCircuit()
    sub = DeclarativeCircuit(repetition_strategy=FixedRepetitionStrategy(repetitions=210))
    for _ in range(25):
        sub.add(Rx180(0))
    sub.add(DispersiveMeasure(0, acquisition_strategy=circuit.get_acquisition_strategy()))
    circuit.add(sub)
    return circuit

def build_library():
    initial_state = InitialStateContainer.from_ordered_list([InitialStateEnum.ZERO, InitialStateEnum.ONE])
    return construct_repetition_code_circuit_simplified(qec_cycles=5000, initial_state=initial_state)

build = build_library if sys.argv[1:] == ['library'] else build_custom
before = to_stim(build())
after = to_stim(build().apply_modifiers())
f_before, f_after = per_target(before), per_target(after)
c_before, c_after = collections.Counter(x[0] for x in f_before), collections.Counter(x[0] for x in f_after)
print("instructions (per target) before unrolling:", len(f_before), dict(c_before))
print("instructions (per target) after  unrolling:", len(f_after), dict(c_after))
print(f"measurements before={before.num_measurements} after={after.num_measurements}")
if collections.Counter(f_before) != collections.Counter(f_after) or before.num_measurements != after.num_measurements:
    print("VIOLATION: exporting before or after unrolling repetitions must give the same multiset of instructions "
          "(and the same number of measurements); operations beyond graph depth 5000 are dropped by unrolling.")
    sys.exit(1)
sys.exit(0)
