"""
C08 finding 5 (weak): DetectorOperation with a main target but without `last_acquisition_index`
(both Optional[int] = None in the signature) makes the export raise TypeError, whereas the sibling
LogicalObservableOperation with the same field values is exported (without targets).
Run: cd /tmp/hunt-C08 && PYTHONPATH=/tmp/hunt-C08/src /venv/bin/python hunt_C08_5.py
"""
import sys, warnings
warnings.filterwarnings('ignore')
from qce_circuit import DeclarativeCircuit, DispersiveMeasure
from qce_circuit.addon_stim import to_stim
from qce_circuit.addon_stim.circuit_operations import DetectorOperation, LogicalObservableOperation

circuit = DeclarativeCircuit()
circuit.add(DispersiveMeasure(0, acquisition_strategy=circuit.get_acquisition_strategy()))
circuit.add(LogicalObservableOperation(qubit_index=0, main_target=0))
print("observable with main_target only:\n" + str(to_stim(circuit)))
circuit.add(DetectorOperation(qubit_index=0, main_target=0))
try:
    print("detector with main_target only:\n" + str(to_stim(circuit)))
except TypeError as e:
    print("VIOLATION: export raised", type(e).__name__, "-", e,
          "; a supported operation must become its Stim gate (DETECTOR), nothing documents this field combination as unsupported.")
    sys.exit(1)
sys.exit(0)
