"""
C08 finding 4 (minor): a repeated sub-circuit that contains only operations the exporter does not support
(or no operations at all) is exported as an empty `REPEAT n { }` block; after unrolling nothing is exported.
Run: cd /tmp/hunt-C08 && PYTHONPATH=/tmp/hunt-C08/src /venv/bin/python hunt_C08_4.py
"""
import sys, warnings
warnings.filterwarnings('ignore')
import stim
from qce_circuit import (
    DeclarativeCircuit, FixedRepetitionStrategy, Hadamard, Wait, VirtualPhase, DispersiveMeasure,
)
from qce_circuit.addon_stim import to_stim


def build():
    circuit = DeclarativeCircuit()
    sub = DeclarativeCircuit(repetition_strategy=FixedRepetitionStrategy(repetitions=3))
    sub.add(Wait(0))            # not supported by the exporter -> to be omitted
    sub.add(VirtualPhase(1))    # not supported by the exporter -> to be omitted
    circuit.add(Hadamard(0))
    circuit.add(sub)
    circuit.add(DispersiveMeasure(0, acquisition_strategy=circuit.get_acquisition_strategy()))
    return circuit

before = to_stim(build())
after = to_stim(build().apply_modifiers())
print("export before unrolling:\n" + str(before))
print("top-level items:", [type(x).__name__ for x in before])
print("export after unrolling:\n" + str(after))
blocks = [x for x in before if isinstance(x, stim.CircuitRepeatBlock) and len(x.body_copy()) == 0]
if blocks or before != after:
    print("VIOLATION: unsupported operations are to be omitted and nothing else added, the export contains "
          f"{len(blocks)} empty REPEAT block(s) that correspond to no operation of the listing; "
          "the programs before/after unrolling are not identical.")
    sys.exit(1)
sys.exit(0)
