"""
C08 finding 2: the repetition count of the exported (top-level) circuit is ignored by the exporter, but honoured
by unrolling. Export before unrolling = body once, export after apply_modifiers = body n times.
Run: cd /tmp/hunt-C08 && PYTHONPATH=/tmp/hunt-C08/src /venv/bin/python hunt_C08_2.py
"""
import sys, warnings, collections
warnings.filterwarnings('ignore')
import stim
from qce_circuit import (
    DeclarativeCircuit, FixedRepetitionStrategy, Hadamard, CPhase, DispersiveMeasure,
)
from qce_circuit.addon_stim import to_stim
from qce_circuit.addon_stim.circuit_operations import DetectorOperation


def unroll(circuit):
    for ins in circuit:
        if isinstance(ins, stim.CircuitRepeatBlock):
            body = list(unroll(ins.body_copy()))
            for _ in range(ins.repeat_count):
                yield from body
        else:
            yield ins


def per_target(circuit):
    """Instruction list, REPEAT blocks expanded, fused instructions split per target (group)."""
    out = []
    for ins in unroll(circuit):
        t = [x.value for x in ins.targets_copy()]
        a = tuple(ins.gate_args_copy())
        if ins.name == 'CZ':
            out += [(ins.name, (t[i], t[i + 1]), a) for i in range(0, len(t), 2)]
        elif ins.name in ('DETECTOR', 'OBSERVABLE_INCLUDE', 'TICK', 'SHIFT_COORDS'):
            out.append((ins.name, tuple(t), a))
        else:
            out += [(ins.name, (x,), a) for x in t]
    return out



def build():
    # Same shape as the library's own `first_sub_circuit` / `cycle_circuit` objects:
    # a DeclarativeCircuit constructed with a repetition strategy.
    circuit = DeclarativeCircuit(repetition_strategy=FixedRepetitionStrategy(repetitions=3))
    circuit.add(Hadamard(0))
    circuit.add(CPhase(0, 1))
    circuit.add(DispersiveMeasure(1, acquisition_strategy=circuit.get_acquisition_strategy()))
    circuit.add(DetectorOperation(qubit_index=1, last_acquisition_index=0, main_target=0))
    return circuit

violated = False
circuit = build()
print("repetition count of exported circuit:", circuit.circuit_structure.nr_of_repetitions)
before = to_stim(circuit)
after = to_stim(build().apply_modifiers())
also_structure = to_stim(build().circuit_structure)   # alternative entry point (ICircuitCompositeOperation)
print("export before unrolling:\n" + str(before))
print("export of circuit_structure (composite entry point):\n" + str(also_structure))
print("export after unrolling (apply_modifiers):\n" + str(after))
print(f"measurements: before={before.num_measurements} after={after.num_measurements}; "
      f"detectors: before={before.num_detectors} after={after.num_detectors}")
if collections.Counter(per_target(before)) != collections.Counter(per_target(after)) or before.num_measurements != after.num_measurements:
    print("VIOLATION: exporting before or after unrolling repetitions must give the same multiset of instructions "
          "and the same number of measurements.")
    violated = True
sys.exit(1 if violated else 0)
