"""
hunt_C14_2 -- T1 = 0 or T2 = 0 (boundary of the range the library's own test accepts, `0 <= t1`)
makes apply_noise raise ZeroDivisionError as soon as a block contains an operation with a
non-zero configured duration; no noisy circuit is produced at all.

Run:  cd /tmp/hunt-C14 && PYTHONPATH=/tmp/hunt-C14/src /venv/bin/python hunt_C14_2.py
Exit code 1 when the violation shows.
"""
import sys
import warnings
warnings.simplefilter('ignore')
from qce_circuit import DeclarativeCircuit, Hadamard, Barrier, DispersiveMeasure
from qce_circuit.addon_stim import to_stim, apply_noise, NoiseSettings
from qce_circuit.addon_stim.noise_settings_manager import QubitNoiseModelParameters
from qce_circuit.connectivity.intrf_channel_identifier import QubitIDObj

circuit = DeclarativeCircuit()
circuit.add(Hadamard(0))
circuit.add(Barrier([0]))
circuit.add(DispersiveMeasure(0, acquisition_strategy=circuit.get_acquisition_strategy()))
stim_circuit = to_stim(circuit)

cases = {
    'default_t1=0': (NoiseSettings(default_t1=0.0), {}),
    'default_t2=0': (NoiseSettings(default_t2=0.0), {}),
    'per-qubit t2=0': (NoiseSettings(individual_noise={QubitIDObj('D1'): QubitNoiseModelParameters(t1=1e-5, t2=0.0)}), {0: QubitIDObj('D1')}),
    'tiny t1=t2=1e-320 (control)': (NoiseSettings(default_t1=1e-320, default_t2=1e-320), {}),
}
violated = False
for label, (settings, qmap) in cases.items():
    try:
        noisy = apply_noise(circuit=stim_circuit, qubit_index_map=qmap, noise_settings=settings)
        print(f"{label:30s} -> {str(noisy).replace(chr(10), ' | ')}")
    except ZeroDivisionError as e:
        violated = True
        print(f"{label:30s} -> ZeroDivisionError: {e}")
print()
print("property requires: a dressed circuit whose idle channels follow the T1/T2 formula; the T->0 limit of the")
print("formula is px=py=pz=0.25 (what the control case with T=1e-320 produces), instead the call crashes.")
sys.exit(1 if violated else 0)
