"""
hunt_C14_1 -- apply_noise() keeps using the noise configuration that was on disk when the
module was imported; later changes of the configuration are ignored by the default entry point,
while the library's other default entry point (IndexedNoiseSettings.from_noise_manager) sees them.

Run:  cd /tmp/hunt-C14 && PYTHONPATH=/tmp/hunt-C14/src /venv/bin/python hunt_C14_1.py
Exit code 1 when the violation shows.  The config file is restored afterwards.
"""
import sys
import warnings
warnings.simplefilter('ignore')
from qce_circuit import DeclarativeCircuit, Hadamard, Barrier, DispersiveMeasure
from qce_circuit.addon_stim import to_stim, apply_noise, NoiseSettings, NoiseSettingManager
from qce_circuit.addon_stim.noise_settings_manager import IndexedNoiseSettings, OperationDurationParameters
from qce_circuit.addon_stim.noise_factory_manager import NoiseFactoryManager
from qce_circuit.connectivity.intrf_channel_identifier import QubitIDObj
from qce_circuit.utilities.readwrite_yaml import write_yaml, get_yaml_file_path

# Circuit produced by the exporter:  H 0 / TICK / M 0
circuit = DeclarativeCircuit()
circuit.add(Hadamard(0))
circuit.add(Barrier([0]))
circuit.add(DispersiveMeasure(0, acquisition_strategy=circuit.get_acquisition_strategy()))
stim_circuit = to_stim(circuit)

path = get_yaml_file_path(NoiseSettingManager.CONFIG_NAME)
original_text = path.read_text()
try:
    # (Re)configure the noise through the library's own config file + manager.
    new_settings = NoiseSettings(
        default_t1=3.3e-6,
        default_t2=4.7e-6,
        default_assignment_error=0.25,
        operation_durations=OperationDurationParameters(duration_mz=311e-9, duration_h=17e-9),
    )
    write_yaml(NoiseSettingManager.CONFIG_NAME, new_settings.to_dict())
    configured = NoiseSettingManager.read_config()
    assert configured == new_settings, "manager does not report the new configuration?"

    noisy_default = apply_noise(circuit=stim_circuit, qubit_index_map={0: QubitIDObj('D1')})
    noisy_expected = apply_noise(circuit=stim_circuit, qubit_index_map={0: QubitIDObj('D1')}, noise_settings=configured)
    noisy_other_entry = NoiseFactoryManager().construct(
        circuit=stim_circuit,
        settings=IndexedNoiseSettings.from_noise_manager(qubit_ids=[QubitIDObj('D1')]),
    )
finally:
    path.write_text(original_text)

def meas_args(c):
    return [ins.gate_args_copy() for ins in c if ins.name == 'M']

print("configuration reported by NoiseSettingManager.read_config():")
print("   default_assignment_error =", configured.default_assignment_error,
      " t1 =", configured.default_t1, " t2 =", configured.default_t2,
      " duration_mz =", configured.operation_durations.duration_mz)
print("apply_noise(circuit, map)                       ->", str(noisy_default).replace('\n', ' | '))
print("apply_noise(circuit, map, noise_settings=cfg)   ->", str(noisy_expected).replace('\n', ' | '))
print("NoiseFactoryManager + from_noise_manager(ids)   ->", str(noisy_other_entry).replace('\n', ' | '))
print()
print("property requires: every M carries the configured assignment error (0.25) and the idle channels")
print("                   follow T1/T2 = 3.3us/4.7us with half of duration_mz = 311ns / duration_h = 17ns")
print("observed M args with default entry point:", meas_args(noisy_default))

violated = noisy_default != noisy_expected
print("VIOLATION" if violated else "no violation", "- default apply_noise ignores the current configuration" if violated else "")
sys.exit(1 if violated else 0)
