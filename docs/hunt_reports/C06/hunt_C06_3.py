"""
C06 finding 3: after flatten(), a duration change makes the unrolled copies differ from the block content.

Run:  cd /tmp/hunt-C06 && PYTHONPATH=/tmp/hunt-C06/src /venv/bin/python hunt_C06_3.py

Block (repetition count n): sub-circuit S = [q0: Wait(registry duration 'k'), Wait(0.1), Wait(0.1);  q1: Wait(5.0)]
and X = Wait(q2, 1.0) with RelationLink(S, FOLLOWED_BY).  The block is flattened (DeclarativeCircuit.flatten(), X now
follows the latest-ending operation of S).  Afterwards the registry duration 'k' is changed from 0.1 to 10.0
(DurationRegistry.set_registry_at) and the modifiers are applied.
Required (C06, all duration assignments): n copies of the content chained one after another; X is the last-ending
operation and a relation leaf, so the block of duration T occupies n*T and in every copy X starts when S has ended.
Observed: in copy 2 X loses its relation (warning 'Expected operation relation ... is not present in circuit'),
is re-attached to X of copy 1 and starts 10.2 too early; the block occupies less than n*T.
"""
import sys
import warnings
warnings.simplefilter("ignore")
from qce_circuit import (
    DeclarativeCircuit, Wait, FixedDurationStrategy, RegistryDurationStrategy, DurationRegistry,
    FixedRepetitionStrategy, RelationLink, RelationType,
)


def build(repetitions: int) -> DeclarativeCircuit:
    registry = DurationRegistry()
    registry.set_registry_at('k', 0.1)
    block = DeclarativeCircuit(nr_qubits=3, repetition_strategy=FixedRepetitionStrategy(repetitions))
    sub = DeclarativeCircuit(nr_qubits=3)
    sub.add(Wait(qubit_index=0, duration_strategy=RegistryDurationStrategy(registry, 'k')))
    sub.add(Wait(qubit_index=0, duration_strategy=FixedDurationStrategy(0.1)))
    sub.add(Wait(qubit_index=0, duration_strategy=FixedDurationStrategy(0.1)))
    sub.add(Wait(qubit_index=1, duration_strategy=FixedDurationStrategy(5.0)))
    added_sub = block.add(sub)
    block.add(Wait(qubit_index=2, duration_strategy=FixedDurationStrategy(1.0), relation=RelationLink(added_sub, RelationType.FOLLOWED_BY)))
    block = block.flatten()
    registry.set_registry_at('k', 10.0)     # duration assignment changes after flatten, before apply_modifiers
    return block.apply_modifiers()


def describe(circuit: DeclarativeCircuit):
    return [(op.qubit_index, op.duration, round(op.start_time, 9)) for op in circuit.operations]


single = build(1)
T = single.duration
n = 2
unrolled = build(n)
print(f"single copy (T = {T}):")
for row in describe(single):
    print("   q%s duration=%5.1f start=%5.1f" % row)
print(f"{n} copies (duration {unrolled.duration}, property requires n*T = {n * T}):")
for row in describe(unrolled):
    print("   q%s duration=%5.1f start=%5.1f" % row)

expected = sorted(describe(single) + [(q, d, round(s + T, 9)) for q, d, s in describe(single)])
observed = sorted(describe(unrolled))
violations = []
if abs(unrolled.duration - n * T) > 1e-9:
    violations.append(f"block of duration T={T} whose last-ending operation (X) is a relation leaf occupies {unrolled.duration}, not n*T={n * T}")
if expected != observed:
    violations.append(f"unrolled content is not n back-to-back copies: expected {[e for e in expected if e not in observed]}, observed {[o for o in observed if o not in expected]}")
if violations:
    print("VIOLATION of C06:")
    for v in violations:
        print("  -", v)
    sys.exit(1)
print("no violation observed")
