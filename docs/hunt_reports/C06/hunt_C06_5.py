"""
C06 finding 5: with large absolute times the next copy begins before the latest-ending relation leaf has ended.

Run:  cd /tmp/hunt-C06 && PYTHONPATH=/tmp/hunt-C06/src /venv/bin/python hunt_C06_5.py

Block content: q0: Wait(2e9), Rx180 (1.0)  -> ends at 2e9 + 1 (relation leaf, ends last)
               q1: Wait(2e9), Wait(0.0), Wait(0.0) -> ends at 2e9 (relation leaf, listed last)
C06: each copy begins when the latest-ending relation leaf of what precedes it has ended (2e9 + 1), the block
of duration T = 2e9 + 1 occupies 2*T.
Observed: MultiRelationLink.reference_node treats end times within rel_tol=1e-9 as equally late and takes the later
listed one, so copy 2 begins at 2e9: its q0 Wait overlaps the Rx180 of copy 1 by the complete gate duration.
"""
import sys
import warnings
warnings.simplefilter("ignore")
from qce_circuit import DeclarativeCircuit, Wait, Rx180, FixedDurationStrategy, FixedRepetitionStrategy

big = 2e9


def build(repetitions: int) -> DeclarativeCircuit:
    block = DeclarativeCircuit(nr_qubits=2, repetition_strategy=FixedRepetitionStrategy(repetitions))
    block.add(Wait(qubit_index=0, duration_strategy=FixedDurationStrategy(big)))
    block.add(Rx180(qubit_index=0))
    block.add(Wait(qubit_index=1, duration_strategy=FixedDurationStrategy(big)))
    block.add(Wait(qubit_index=1, duration_strategy=FixedDurationStrategy(0.0)))
    block.add(Wait(qubit_index=1, duration_strategy=FixedDurationStrategy(0.0)))
    return block.apply_modifiers()


T = build(1).duration
unrolled = build(2)
ops = unrolled.operations
for i, op in enumerate(ops):
    print(f"   copy {i // 5}  {type(op).__name__:6s} q{op.qubit_index}  start={op.start_time!r}  end={op.end_time!r}")
copy1_latest_end = max(op.end_time for op in ops[:5])
copy2_begin = min(op.start_time for op in ops[5:])
print(f"T = {T!r}, unrolled duration = {unrolled.duration!r}, required 2*T = {2 * T!r}")
print(f"latest-ending leaf of copy 1 ends at {copy1_latest_end!r}, copy 2 begins at {copy2_begin!r}")
if copy2_begin < copy1_latest_end or unrolled.duration != 2 * T:
    print("VIOLATION of C06: copy 2 begins before the latest-ending relation leaf of copy 1 has ended "
          f"(overlap {copy1_latest_end - copy2_begin} on q0), block does not occupy n*T")
    sys.exit(1)
print("no violation observed")
