"""
C06 finding 6 (same root cause as finding 1): a reference to an (empty) sub-circuit is redirected to the enclosing
circuit, the unrolled circuit cannot be evaluated any more (infinite recursion).

Run:  cd /tmp/hunt-C06 && PYTHONPATH=/tmp/hunt-C06/src /venv/bin/python hunt_C06_6.py

mid (count 2) = [empty sub-circuit (default constructed, attached with add_operation), VirtualPark(q2)]
mid.apply_modifiers().flatten() is added to block (count 2), block is added to a circuit, modifiers are applied.
C06 requires 4 VirtualPark operations back to back (duration 4.0).
Observed: already the duration / start times of `block` recurse infinitely, apply_modifiers() of the top circuit as well:
when `mid` is copied into `block`, the relation of the second VirtualPark (latest of [empty sub-circuit, first
VirtualPark]) is transferred with a lookup {mid structure: block structure}; the empty sub-circuit compares equal to (and
hashes like) the mid structure (same default RelationLink instance, equal repetition strategy), so the VirtualPark ends
up following the circuit that contains it.
"""
import sys
import warnings
warnings.simplefilter("ignore")
sys.setrecursionlimit(2000)
from qce_circuit import DeclarativeCircuit, FixedRepetitionStrategy
from qce_circuit.structure.circuit_operations import VirtualPark

empty = DeclarativeCircuit(nr_qubits=3, repetition_strategy=FixedRepetitionStrategy(2))
mid = DeclarativeCircuit(nr_qubits=3, repetition_strategy=FixedRepetitionStrategy(2))
mid.add_operation(empty.circuit_structure)
mid.add(VirtualPark(2))
mid = mid.apply_modifiers().flatten()
print("mid after apply_modifiers().flatten():", [(type(o).__name__, o.start_time) for o in mid.operations], "duration", mid.duration)

block = DeclarativeCircuit(nr_qubits=3, repetition_strategy=FixedRepetitionStrategy(2))
block.add(mid)
top = DeclarativeCircuit(nr_qubits=3)
top.add(block)
try:
    unrolled = top.apply_modifiers()
    ops = unrolled.operations
    print("unrolled:", [(type(o).__name__, o.start_time) for o in ops], "duration", unrolled.duration)
    ok = len(ops) == 4 and abs(unrolled.duration - 4.0) < 1e-9
except RecursionError:
    print("RecursionError while applying modifiers / evaluating the unrolled circuit")
    ok = False
if not ok:
    print("VIOLATION of C06: required 4 back-to-back VirtualPark operations (duration 4.0)")
    sys.exit(1)
print("no violation observed")
