"""
C06 finding 4: unrolling to a relation depth above 5000 silently drops operations (only a warning is raised).

Run:  cd /tmp/hunt-C06 && PYTHONPATH=/tmp/hunt-C06/src timeout 600 /venv/bin/python hunt_C06_4.py      (takes ~30 s)

Block content: 50 back-to-back Wait(q0, 1.0) and one Wait(q1, 0.5); repetition count 101 (5151 operations, a chain
of 5050 operations on q0).  C06 requires every kind of operation content x count times and, the last-ending operation
being a relation leaf, a total duration of n*T = 5050.
Observed: graph traversal stops at MAX_GRAPH_DEPTH = 5000 (graph_traversal/intrf_graph_structure.py, WhileLoopSafety
only warns), the listing of the unrolled circuit misses operations and the reported duration is too short.
With a single chain (no second qubit) the same input crashes with IndexError in CircuitCompositeOperation.extend.
"""
import sys
import warnings
from collections import Counter
warnings.simplefilter("ignore")
from qce_circuit import DeclarativeCircuit, Wait, FixedDurationStrategy, FixedRepetitionStrategy

chain_length, n = 50, 101
block = DeclarativeCircuit(nr_qubits=2, repetition_strategy=FixedRepetitionStrategy(n))
for _ in range(chain_length):
    block.add(Wait(qubit_index=0, duration_strategy=FixedDurationStrategy(1.0)))
block.add(Wait(qubit_index=1, duration_strategy=FixedDurationStrategy(0.5)))
T = block.duration
content = Counter(op.qubit_index for op in block.operations)

with warnings.catch_warnings(record=True) as caught:
    warnings.simplefilter("always")
    unrolled = block.apply_modifiers()
    observed = Counter(op.qubit_index for op in unrolled.operations)
    duration = unrolled.duration
print("warnings raised:", sorted({w.category.__name__ for w in caught}))
print(f"content per copy: {dict(content)}, T = {T}, n = {n}")
print(f"required: {{0: {content[0] * n}, 1: {content[1] * n}}} operations, duration n*T = {n * T}")
print(f"observed: {dict(observed)} operations, duration {duration}")
if observed != Counter({0: content[0] * n, 1: content[1] * n}) or abs(duration - n * T) > 1e-6:
    print("VIOLATION of C06: operations do not occur content x count times / block does not occupy n*T")
    sys.exit(1)
print("no violation observed")
