"""
C06 finding 2: copies of a block overlap when the content starts before the block's first operation (JOINED_END).

Run:  cd /tmp/hunt-C06 && PYTHONPATH=/tmp/hunt-C06/src /venv/bin/python hunt_C06_2.py

Block content: A = Wait(q0, 1.0);  B = Wait(q1, 5.0) with RelationLink(A, RelationType.JOINED_END)
(B ends together with A, hence starts 4.0 before A).  Block duration T = 5.0.  B is a relation leaf and ends
last (together with A), so C06 requires that n copies are chained one after another and occupy n*T.
Observed: every next copy is anchored with its FIRST operation (A) on the end of the previous copy, the part of the
content that starts before A is placed inside the previous copy: the copies overlap on q1 and n copies occupy T + (n-1)*1.0.
"""
import sys
import warnings
warnings.simplefilter("ignore")
from qce_circuit import (
    DeclarativeCircuit, Wait, FixedDurationStrategy, FixedRepetitionStrategy, RelationLink, RelationType,
)


def build(repetitions: int) -> DeclarativeCircuit:
    block = DeclarativeCircuit(nr_qubits=2, repetition_strategy=FixedRepetitionStrategy(repetitions))
    a = block.add(Wait(qubit_index=0, duration_strategy=FixedDurationStrategy(1.0)))
    block.add(Wait(qubit_index=1, duration_strategy=FixedDurationStrategy(5.0), relation=RelationLink(a, RelationType.JOINED_END)))
    top = DeclarativeCircuit(nr_qubits=2)
    top.add(block)
    return top


n = 3
T = build(1).apply_modifiers().duration
unrolled = build(n).apply_modifiers()
ops = unrolled.operations
print(f"single copy duration T = {T};  n = {n};  unrolled duration = {unrolled.duration}  (property requires n*T = {n * T})")
for i, op in enumerate(ops):
    print(f"   copy {i // 2}  q{op.qubit_index}  start={op.start_time:5.1f}  end={op.end_time:5.1f}")

violations = []
if abs(unrolled.duration - n * T) > 1e-9:
    violations.append(f"block of duration T={T} whose last-ending operation is a relation leaf occupies {unrolled.duration}, not n*T={n * T}")
for k in range(1, n):
    previous_end = max(op.end_time for op in ops[2 * (k - 1): 2 * k])
    begin = min(op.start_time for op in ops[2 * k: 2 * k + 2])
    if begin < previous_end - 1e-9:
        violations.append(f"copy {k} begins at {begin}, before the latest-ending leaf of copy {k - 1} has ended ({previous_end}); the q1 operations overlap")
if violations:
    print("VIOLATION of C06:")
    for v in violations:
        print("  -", v)
    sys.exit(1)
print("no violation observed")
