"""
C06 finding 1: two distinct sub-circuits that compare equal are mixed up when a repeated block is copied.

Run:  cd /tmp/hunt-C06 && PYTHONPATH=/tmp/hunt-C06/src /venv/bin/python hunt_C06_1.py

A block (repetition count 2) contains two sub-circuits on different qubits that were created with the default
arguments of DeclarativeCircuit and attached with DeclarativeCircuit.add_operation(sub.circuit_structure)
(no copy is made on this entry point), plus one operation that follows the FIRST sub-circuit on the same qubit.
The modifiers are applied to the block itself (block.apply_modifiers()).
Expected (property C06): the second copy is a copy of the content, i.e. the follower in copy 2 starts when the
first sub-circuit of copy 2 has ended, and the block of duration T occupies 2*T.
Observed: in copy 2 the follower is related to the SECOND sub-circuit, starts before the first one has ended
(overlap on the same qubit) and the block occupies less than 2*T.
"""
import sys
import warnings
warnings.simplefilter("ignore")
from qce_circuit import DeclarativeCircuit, Wait, FixedDurationStrategy, FixedRepetitionStrategy


def wait(qubit: int, duration: float) -> Wait:
    return Wait(qubit_index=qubit, duration_strategy=FixedDurationStrategy(duration=duration))


def build(repetitions: int) -> DeclarativeCircuit:
    sub_a = DeclarativeCircuit(nr_qubits=2)     # default relation, default repetition strategy
    sub_a.add(wait(0, 5.0))
    sub_b = DeclarativeCircuit(nr_qubits=2)     # default relation, default repetition strategy
    sub_b.add(wait(1, 1.0))

    block = DeclarativeCircuit(nr_qubits=2, repetition_strategy=FixedRepetitionStrategy(repetitions))
    block.add_operation(sub_a.circuit_structure)   # qubit 0, 5.0
    block.add_operation(sub_b.circuit_structure)   # qubit 1, 1.0
    block.add(wait(0, 2.0))                        # follows sub_a on qubit 0 (automatic relation)

    return block   # modifiers are applied to the block itself (DeclarativeCircuit.add would make one more copy)


single = build(1).apply_modifiers()
T = single.duration
unrolled = build(2).apply_modifiers()

print(f"single copy: duration T = {T}")
for op in single.operations:
    print(f"   q{op.qubit_index}  start={op.start_time:5.1f}  end={op.end_time:5.1f}")
print(f"two copies: duration = {unrolled.duration}   (property requires 2*T = {2 * T})")
ops = unrolled.operations
for op in ops:
    print(f"   q{op.qubit_index}  start={op.start_time:5.1f}  end={op.end_time:5.1f}")

# copy 2 = last three operations: sub_a content (q0, 5.0), sub_b content (q1, 1.0), follower (q0, 2.0)
copy2_sub_a, copy2_sub_b, copy2_follower = ops[3], ops[4], ops[5]
violations = []
if abs(unrolled.duration - 2 * T) > 1e-9:
    violations.append(f"block of duration T={T} (last-ending operation is a relation leaf) occupies {unrolled.duration}, not n*T={2 * T}")
if copy2_follower.start_time < copy2_sub_a.end_time - 1e-9:
    violations.append(
        f"copy 2 is not a copy of the content: follower on q0 starts at {copy2_follower.start_time} while the "
        f"sub-circuit it follows (q0) ends at {copy2_sub_a.end_time}; it is related to the other sub-circuit (q1, ends {copy2_sub_b.end_time})"
    )
print("structures of two unrelated default-constructed circuits compare equal:",
      DeclarativeCircuit().circuit_structure == DeclarativeCircuit().circuit_structure)
if violations:
    print("VIOLATION of C06:")
    for v in violations:
        print("  -", v)
    sys.exit(1)
print("no violation observed")
