"""
C16 finding 2: a step that contains the SAME two-qubit gate twice (same or reversed qubit order)
is accepted as simultaneous, and the sequence generator emits such steps when the edge list
contains an edge twice (e.g. once as D1-Z1 and once as Z1-D1).

Run: cd /tmp/hunt-C16 && PYTHONPATH=/tmp/hunt-C16/src /venv/bin/python hunt_C16_2.py 2>/dev/null
"""
import sys
from qce_circuit.connectivity.connectivity_surface_code import Surface17Layer
from qce_circuit.connectivity.mapping.gate_sequence_generator import GateSequenceGenerator
from qce_circuit.connectivity.intrf_channel_identifier import EdgeIDObj, QubitIDObj
from qce_circuit.connectivity.intrf_connectivity_gate_sequence import Operation

conn = Surface17Layer()
e = EdgeIDObj(QubitIDObj('D1'), QubitIDObj('Z1'))
e_rev = EdgeIDObj(QubitIDObj('Z1'), QubitIDObj('D1'))
r_same = GateSequenceGenerator.get_mutually_allowed([Operation.type_gate(e), Operation.type_gate(e)], conn)
r_rev = GateSequenceGenerator.get_mutually_allowed([Operation.type_gate(e), Operation.type_gate(e_rev)], conn)
print(f"get_mutually_allowed([D1-Z1, D1-Z1]) = {r_same}")
print(f"get_mutually_allowed([D1-Z1, Z1-D1]) = {r_rev}")
print("required by C16: False, D1 and Z1 each take part in two of the listed gates "
      "(any other pair of gates sharing a qubit, e.g. [D1-Z1, D2-Z1], is rejected: "
      f"{GateSequenceGenerator.get_mutually_allowed([Operation.type_gate(e), Operation.type_gate(EdgeIDObj(QubitIDObj('D2'), QubitIDObj('Z1')))], conn)})")

generator = GateSequenceGenerator(
    included_edge_ids=[e, e_rev, EdgeIDObj(QubitIDObj('D3'), QubitIDObj('Z2')), EdgeIDObj(QubitIDObj('D9'), QubitIDObj('X4'))],
    connectivity=conn,
)
identifier = generator.construct_allowed_gate_sequences(subgroup_size=2)
bad_steps = 0
for i in range(identifier.length):
    sequence = identifier.construct_operation_sequence_at(i)
    for step in sequence.operations:
        qubits = [q for op in step for q in op.identifier.qubit_ids]
        if len(set(qubits)) != len(qubits):
            bad_steps += 1
            print(f"emitted sequence {i} contains step {[op.identifier for op in step]}: a qubit takes part in two gates of one step")
violated = r_same or r_rev or bad_steps > 0
sys.exit(1 if violated else 0)
