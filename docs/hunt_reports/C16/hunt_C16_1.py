"""
C16 finding 1: get_requires_parking depends on the ORDER of the edge list when two of the
listed gates share a qubit (the shared ancilla is 'moving' in one gate and 'static' in the other).

Run: cd /tmp/hunt-C16 && PYTHONPATH=/tmp/hunt-C16/src /venv/bin/python hunt_C16_1.py
"""
import sys
from qce_circuit.connectivity.connectivity_surface_code import Surface17Layer, get_requires_parking
from qce_circuit.connectivity.intrf_channel_identifier import EdgeIDObj, QubitIDObj

conn = Surface17Layer()
e_static = EdgeIDObj(QubitIDObj('D4'), QubitIDObj('Z1'))  # Z1 (MID) is the lower member: gate operates at MID, D4 moves
e_moving = EdgeIDObj(QubitIDObj('D1'), QubitIDObj('Z1'))  # Z1 (MID) is the higher member: gate operates at LOW, Z1 moves
idle = QubitIDObj('D2')                                    # LOW, neighbour of Z1, not part of either gate

a = bool(get_requires_parking(idle, [e_moving, e_static], conn))
b = bool(get_requires_parking(idle, [e_static, e_moving], conn))
print(f"subset {{D1-Z1, D4-Z1}}, idle qubit D2")
print(f"  get_requires_parking(D2, [D1-Z1, D4-Z1]) = {a}")
print(f"  get_requires_parking(D2, [D4-Z1, D1-Z1]) = {b}")
print("required by C16: True for both orders: D2 neighbours Z1, Z1 is the moving (higher-frequency) member of the "
      "active gate D1-Z1, whose operating level is LOW, and D2 idles at LOW.")

# Count over all 2-edge subsets of the 24 Surface-17 edges
import itertools
LEVEL = {**{q: 0 for q in ['D1', 'D2', 'D3', 'D7', 'D8', 'D9']}, **{q: 2 for q in ['D4', 'D5', 'D6']}}
def lvl(q): return LEVEL.get(q.id, 1)
def ref_park(q, edges):
    if any(e.contains(q) for e in edges):
        return False
    for e in edges:
        q0, q1 = e.qubit_ids
        moving, static = (q0, q1) if lvl(q0) > lvl(q1) else (q1, q0)
        if moving in conn.get_neighbors(q) and lvl(q) == lvl(static):
            return True
    return False
mismatch = 0
order_dependent = 0
for e0, e1 in itertools.combinations(conn.edge_ids, 2):
    for q in conn.qubit_ids:
        r01 = bool(get_requires_parking(q, [e0, e1], conn))
        r10 = bool(get_requires_parking(q, [e1, e0], conn))
        exp = ref_park(q, [e0, e1])
        order_dependent += (r01 != r10)
        mismatch += (r01 != exp) + (r10 != exp)
print(f"all 276 two-edge subsets x 17 qubits x 2 orders: {mismatch} answers differ from the statement, "
      f"{order_dependent} (subset, qubit) pairs give different answers for the two orders")
violated = (a != b) or (not a) or (not b) or mismatch > 0
sys.exit(1 if violated else 0)
