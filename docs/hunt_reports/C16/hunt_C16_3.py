"""
C16 finding 3: GateSequenceIdentifier keeps a reference to the caller's edge list (no copy).
Re-ordering that list after construct_allowed_gate_sequences() makes the already returned
identifier emit sequences whose steps were never checked and are not accepted.

Run: cd /tmp/hunt-C16 && PYTHONPATH=/tmp/hunt-C16/src /venv/bin/python hunt_C16_3.py 2>/dev/null
"""
import sys
from qce_circuit.connectivity.connectivity_surface_code import Surface17Layer
from qce_circuit.connectivity.mapping.gate_sequence_generator import GateSequenceGenerator
from qce_circuit.connectivity.intrf_channel_identifier import EdgeIDObj, QubitIDObj
from qce_circuit.connectivity.intrf_connectivity_gate_sequence import Operation

conn = Surface17Layer()
edges = [EdgeIDObj.from_qubit_ids(a, b) for a, b in [('Z1', 'D1'), ('Z2', 'D3'), ('Z1', 'D2'), ('Z2', 'D6')]]
generator = GateSequenceGenerator(included_edge_ids=edges, connectivity=conn)
identifier = generator.construct_allowed_gate_sequences(subgroup_size=2)

def report(tag):
    bad = 0
    for i in range(identifier.length):
        for step in identifier.construct_operation_sequence_at(i).operations:
            ok = GateSequenceGenerator.get_mutually_allowed(step, conn)
            print(f"  {tag} sequence {i} step {[op.identifier for op in step]} accepted={ok}")
            bad += (not ok)
    return bad

before = report("before")
edges.sort()  # caller tidies up its own list (IChannelIdentifier defines __lt__, so this is supported)
after = report("after edges.sort()")
print(f"unaccepted steps emitted: before={before}, after caller-side sort={after}; C16 requires 0 (only accepted steps)")
sys.exit(1 if (before or after) else 0)
