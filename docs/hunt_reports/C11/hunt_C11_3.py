"""
hunt_C11_3: "flattening again changes nothing" fails for an implicitly sequenced nested program in which a
(placeholder) sub-circuit is filled in through the handle that DeclarativeCircuit.add() returns.

Clause violated: "... no sub-circuit remains and flattening again changes nothing" (the second flatten() moves the
Barrier to another listing position).
Only implicit sequencing is used (no RelationLink is passed anywhere); every call is public API:
  - IDeclarativeCircuit.add(...)            -> ":return: Added operation."  (the nested composite)
  - ICircuitCompositeOperation.add(...)     -> ":return: Self. Adds operation to circuit."
  - reading DeclarativeCircuit.duration / .operations between the steps
Run:  cd /tmp/hunt-C11 && PYTHONPATH=/tmp/hunt-C11/src timeout 300 /venv/bin/python -W ignore hunt_C11_3.py
"""
import sys, io, contextlib
from qce_circuit import DeclarativeCircuit, Wait, Barrier, FixedDurationStrategy


def wait(qubit, duration):
    return Wait(qubit, duration_strategy=FixedDurationStrategy(duration))


def listing(circuit):
    return [(type(op).__name__, tuple(sorted({c.id for c in op.channel_identifiers})), op.start_time, op.duration) for op in circuit.operations]


def flatten(circuit):
    with contextlib.redirect_stderr(io.StringIO()):   # silence tqdm progress bar
        return circuit.flatten()


top = DeclarativeCircuit()
preparation = top.add(DeclarativeCircuit())      # placeholder sub-circuit, filled in below through the returned handle

body = DeclarativeCircuit()
body.add(wait(1, 1.0))
body.add(wait(1, 7.0))
body.add(wait(2, 1.0))
for _ in range(4):
    body.add(wait(3, 0.1))
top.add(body)
top.add(Barrier([1, 2]))

preparation.add(wait(1, 5.0))                     # fill the placeholder (public ICircuitCompositeOperation.add)
preparation.add(wait(2, 9.0))

print("duration of nested circuit:", top.duration)           # plain observation between build and flatten
ids_nested = sorted(id(op) for op in top.operations)

flat_1 = flatten(top)
listing_1 = listing(flat_1)
ids_1 = [id(op) for op in flat_1.operations]
flat_2 = flatten(flat_1)
listing_2 = listing(flat_2)
ids_2 = [id(op) for op in flat_2.operations]

print("same operations, no sub-circuit left:", sorted(ids_1) == ids_nested, len(flat_1.composite_operations) == 0)
print("listing after 1st flatten():")
for row in listing_1:
    print("   ", row)
print("listing after 2nd flatten():")
for row in listing_2:
    print("   ", row)
print("PROPERTY C11 requires: flattening again changes nothing (same listing order).")
violated = ids_1 != ids_2
print("VIOLATION: second flatten() reordered the listing" if violated else "holds")
sys.exit(1 if violated else 0)
