"""
hunt_C11_1: flattening a (modifier-applied) repetition-code circuit with many QEC cycles LOSES operations.

Clause violated: "the multiset of leaf operations (kind, qubits, duration, tag) is unchanged" and, for library
circuits, "the listing order, the acquisition indices and the exported Stim program are identical before and after
flattening".
Input: construct_repetition_code_circuit(qec_cycles=270, initial_state=<2 data qubits>)  (public constructor, plain int).
Run:  cd /tmp/hunt-C11 && PYTHONPATH=/tmp/hunt-C11/src timeout 600 /venv/bin/python -W ignore hunt_C11_1.py
(takes about one minute)
"""
import sys, io, contextlib, warnings
from collections import Counter
from qce_circuit.library.repetition_code.circuit_constructors import construct_repetition_code_circuit
from qce_circuit.language import InitialStateContainer, InitialStateEnum
from qce_circuit.structure.intrf_acquisition_operation import IAcquisitionOperation
from qce_circuit.addon_stim import to_stim

QEC_CYCLES = int(sys.argv[1]) if len(sys.argv) > 1 else 270


def signature(op):
    qubits = tuple(sorted({c.id for c in op.channel_identifiers}))
    return type(op).__name__, qubits, round(op.duration, 9), getattr(op, 'acquisition_tag', None)


warnings.simplefilter('ignore')
initial_state = InitialStateContainer.from_ordered_list([InitialStateEnum.ZERO, InitialStateEnum.ONE])
circuit = construct_repetition_code_circuit(qec_cycles=QEC_CYCLES, initial_state=initial_state)
circuit = circuit.apply_modifiers()

before_ops = circuit.operations
before = Counter(signature(op) for op in before_ops)
before_acq = [op.circuit_level_acquisition_index for op in before_ops if isinstance(op, IAcquisitionOperation)][-3:]
before_stim = to_stim(circuit)
print(f"qec_cycles={QEC_CYCLES}: nested circuit lists {len(before_ops)} leaf operations, "
      f"{len(circuit.composite_operations)} sub-circuits, stim instructions={len(before_stim)}")

with contextlib.redirect_stderr(io.StringIO()):   # silence tqdm progress bar
    flat = circuit.flatten()

after_ops = flat.operations
after = Counter(signature(op) for op in after_ops)
after_stim = to_stim(flat)
print(f"after flatten: {len(after_ops)} leaf operations, {len(flat.composite_operations)} sub-circuits, "
      f"stim instructions={len(after_stim)}, graph depth={flat.circuit_structure._circuit_graph.get_branch_depth()}")
missing = before - after
print(f"operations missing after flatten: {sum(missing.values())}")
for key, count in list(missing.items())[:8]:
    print("   ", count, "x", key)
print("last DETECTOR/OBSERVABLE lines of the Stim program before:", str(before_stim).splitlines()[-2:])
print("last lines of the Stim program after :", str(after_stim).splitlines()[-2:])
print("PROPERTY C11 requires: identical multiset of leaf operations, identical listing and Stim program.")

violated = (before != after) or (str(before_stim) != str(after_stim))
print("VIOLATION" if violated else "holds")
sys.exit(1 if violated else 0)
