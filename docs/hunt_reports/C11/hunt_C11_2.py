"""
hunt_C11_2: same defect as hunt_C11_1 on a hand-written, implicitly sequenced build program with nesting.

Two repeated sub-circuits (each 2600 sequential operations after apply_modifiers, i.e. each nested graph stays below
the internal depth limit) are listed completely while nested; flatten() chains them into one graph of depth 5200 and the
operations beyond depth 4999 disappear from `operations` (only a warning is raised).

Clause violated: "the multiset of leaf operations (kind, qubits, duration, tag) is unchanged".
Run:  cd /tmp/hunt-C11 && PYTHONPATH=/tmp/hunt-C11/src timeout 900 /venv/bin/python hunt_C11_2.py   (about one minute)
"""
import sys, io, contextlib, warnings
from collections import Counter
from qce_circuit import DeclarativeCircuit, FixedRepetitionStrategy, Rx180, Ry90

REPS = int(sys.argv[1]) if len(sys.argv) > 1 else 2600


def signature(op):
    qubits = tuple(sorted({c.id for c in op.channel_identifiers}))
    return type(op).__name__, qubits, round(op.duration, 9), getattr(op, 'acquisition_tag', None)


with warnings.catch_warnings(record=True) as caught:
    warnings.simplefilter('always')
    top = DeclarativeCircuit()
    first = DeclarativeCircuit(repetition_strategy=FixedRepetitionStrategy(REPS))
    first.add(Rx180(0))
    second = DeclarativeCircuit(repetition_strategy=FixedRepetitionStrategy(REPS))
    second.add(Ry90(0))
    top.add(first)
    top.add(second)          # implicitly sequenced after `first` (same channel)
    top = top.apply_modifiers()
    before = Counter(signature(op) for op in top.operations)
    print("nested  :", dict(before), "sub-circuits:", len(top.composite_operations), "warnings so far:", len(caught))
    with contextlib.redirect_stderr(io.StringIO()):
        flat = top.flatten()
    after = Counter(signature(op) for op in flat.operations)
    print("flat    :", dict(after), "sub-circuits:", len(flat.composite_operations))
    print("warnings:", sorted({f"{w.category.__name__}: {str(w.message)[:70]}" for w in caught}))
print("missing after flatten:", dict(before - after))
print("PROPERTY C11 requires the same multiset of leaf operations before and after flatten().")
violated = before != after
print("VIOLATION" if violated else "holds")
sys.exit(1 if violated else 0)
