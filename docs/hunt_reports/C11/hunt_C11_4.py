"""
hunt_C11_4 (BORDERLINE, rounding level only): with duration settings that are not round numbers the schedule of a
modifier-applied library circuit is not bit-identical before and after flatten(); start times move by ~1e-14.

Clause touched: "for modifier-applied library circuits ... the schedule ... identical before and after flattening".
Nested: a sub-circuit starts at  start(previous) + (latest_end - earliest_start)  of the previous sub-circuit;
flat:   the same operation starts at the end time of the latest operation of the previous sub-circuit.
Both are the same real number but not the same float.  Listing order, acquisition indices and Stim program are equal.
Exit code 1 only signals "not bit-identical"; with any tolerance >= 1e-12 the clause holds.
Run:  cd /tmp/hunt-C11 && PYTHONPATH=/tmp/hunt-C11/src timeout 300 /venv/bin/python -W ignore hunt_C11_4.py
"""
import sys, io, contextlib, warnings
from qce_circuit.library.repetition_code.circuit_constructors import construct_repetition_code_circuit
from qce_circuit.language import InitialStateContainer, InitialStateEnum
from qce_circuit.structure.registry_duration import temporary_override_get_registry_at, GlobalRegistryKey

warnings.simplefilter('ignore')
settings = {
    GlobalRegistryKey.READOUT: 0.7,
    GlobalRegistryKey.MICROWAVE: 0.1,
    GlobalRegistryKey.FLUX: 1 / 3,
    GlobalRegistryKey.RESET: 1.1,
}
initial_state = InitialStateContainer.from_ordered_list([InitialStateEnum.ZERO] * 3)
with temporary_override_get_registry_at(settings):
    circuit = construct_repetition_code_circuit(qec_cycles=6, initial_state=initial_state).apply_modifiers()
    operations = circuit.operations
    before = [op.start_time for op in operations]
    with contextlib.redirect_stderr(io.StringIO()):
        flat = circuit.flatten()
    assert [id(op) for op in flat.operations] == [id(op) for op in operations], "listing order changed"
    after = [op.start_time for op in flat.operations]

differences = [(i, b, a) for i, (b, a) in enumerate(zip(before, after)) if a != b]
print(f"{len(differences)} of {len(before)} start times are not bit-identical after flatten(); "
      f"largest difference {max((abs(a - b) for _, b, a in differences), default=0.0):.3e}")
for i, b, a in differences[:5]:
    print(f"    operation #{i} {type(operations[i]).__name__}: before {b!r}  after {a!r}")
print("PROPERTY C11 requires an identical schedule; the difference is floating-point rounding only.")
sys.exit(1 if differences else 0)
