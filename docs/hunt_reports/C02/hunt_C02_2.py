"""
hunt_C02_2: a circuit that holds a few hundred sub-circuits one after the other (graph depth ~400, far below the
documented MAX_GRAPH_DEPTH = 5000) can be listed on its own, but can no longer be nested into another circuit:
DeclarativeCircuit.add(...) dies with RecursionError, so no listing exists for a legal build program.

Property C02 clause: "The operation listing of a circuit contains exactly the operations that were added (sub-circuits
expanded in place ...)", quantified over all build programs "up to the documented graph depth limit".

Legality: only DeclarativeCircuit(), add(operation) and add(circuit) are used, the same calls as in
tests/language/test_declarative_circuit.py (test_circuit_example_3/4) and in
library/repetition_code/circuit_constructors.py::construct_repetition_code_multi_round_circuit, which adds one block per
entry of a caller-supplied list to a result circuit that callers then nest / copy again.
The same chain made of plain operations (control below) nests without any problem.
"""
import sys
from qce_circuit import DeclarativeCircuit, Rx180, Ry90
from qce_circuit.structure.graph_traversal.intrf_graph_structure import MAX_GRAPH_DEPTH

N = 400
block = DeclarativeCircuit()
block.add(Rx180(0))

sequence = DeclarativeCircuit()
for _ in range(N):
    sequence.add(block)  # N blocks, each follows the previous one (same qubit)
print(f"sequence of {N} blocks (MAX_GRAPH_DEPTH={MAX_GRAPH_DEPTH}): listing has {len(sequence.operations)} operations (expected {N})")

# Control: same depth, plain operations instead of blocks
control = DeclarativeCircuit()
for _ in range(N):
    control.add(Rx180(0))
outer_control = DeclarativeCircuit()
outer_control.add(Ry90(1))
outer_control.add(control)
print(f"control (chain of {N} plain operations nested in an outer circuit): listing has {len(outer_control.operations)} operations (expected {N + 1})")

# The standard pre-export step copies the blocks as well and fails in the same way
try:
    sequence.apply_modifiers()
    print("sequence.apply_modifiers(): ok")
except RecursionError:
    print("sequence.apply_modifiers(): RecursionError as well (all repetitions are 1, nothing to repeat)")

outer = DeclarativeCircuit()
outer.add(Ry90(1))
try:
    outer.add(sequence)
except RecursionError as error:
    print(f"VIOLATION: outer.add(sequence) raised RecursionError ({error}); "
          f"the listing of the outer circuit has {len(outer.operations)} operations, expected {N + 1}.")
    print("Cause: CircuitCompositeOperation is a dataclass with unsafe_hash=True, its hash is computed from its relation "
          "link, which hashes the referenced (previous) block, ... -> recursion as deep as the chain, triggered by "
          "`relation_transfer_lookup[node.operation] = operation_copy` in CircuitCompositeOperation.copy().")
    sys.exit(1)
got = len(outer.operations)
print(f"outer listing has {got} operations, expected {N + 1}")
sys.exit(0 if got == N + 1 else 1)
