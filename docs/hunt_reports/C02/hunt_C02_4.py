"""
hunt_C02_4 (boundary): a chain whose graph depth equals the documented limit MAX_GRAPH_DEPTH = 5000 loses its last operation.
(runtime ~1 minute: adding is quadratic in the chain length)

Property C02 clause: "The operation listing of a circuit contains exactly the operations that were added", quantified
"up to the documented graph depth limit".
IGraphNavigation.get_branch_depth documents the depth as "Number of child node steps until 'lowest' leaf. (At the root, the
depth is 0)": N operations one after the other on one qubit have depth N. With N = MAX_GRAPH_DEPTH the traversal loop of
GraphBranch._update_branch_iterator spends its 5000 iterations on depths 0..4999, so the node at depth 5000 is dropped
(only a WhileLoopSafetyExceededWarning is raised); N = MAX_GRAPH_DEPTH - 1 is the largest chain that is listed completely.

Legality: only DeclarativeCircuit() and add(Rx180(0)).
"""
import sys
import warnings
from qce_circuit import DeclarativeCircuit, Rx180
from qce_circuit.structure.graph_traversal.intrf_graph_structure import MAX_GRAPH_DEPTH

violations = 0
for n in (MAX_GRAPH_DEPTH - 1, MAX_GRAPH_DEPTH):
    circuit = DeclarativeCircuit()
    added = []
    with warnings.catch_warnings(record=True) as caught:
        warnings.simplefilter('always')
        for _ in range(n):
            added.append(circuit.add(Rx180(0)))
        listed = circuit.operations
        depth = circuit.circuit_structure._circuit_graph.get_branch_depth()
    missing = [i for i, o in enumerate(added) if not any(o is x for x in listed[max(0, i - 2):i + 3])]
    print(f"chain of {n} operations (MAX_GRAPH_DEPTH={MAX_GRAPH_DEPTH}): listed {len(listed)}, reported branch depth {depth}, "
          f"missing added operations (by position) {missing}, warnings: {sorted(set(str(w.message) for w in caught))}")
    if len(listed) != n:
        violations += 1
        print(f"  VIOLATION: {n - len(listed)} added operation(s) are not in the listing although the depth ({n}) does not exceed the limit")
print("Property C02 requires: listing contains exactly the operations that were added, up to the documented graph depth limit.")
sys.exit(1 if violations else 0)
