"""
hunt_C02_1: the explicit relation of a sub-circuit is silently dropped by
DeclarativeCircuit.add / add_declarative_circuit / add_sub_circuit, so the sub-circuit's operations are listed
BEFORE the operation the sub-circuit was declared to follow.

Property C02 clause: "it never lists an operation before the operation its relation refers to"
(quantified over build programs "with and without explicit relations").

Legality: DeclarativeCircuit.__init__(nr_qubits, relation, repetition_strategy) takes the relation of the block;
CircuitCompositeOperation.relation_link has a public setter; the library's own example
(visualization/visualize_circuit/display_circuit.py, __main__) does exactly this:
    sub_circuit._structure.relation_link = RelationLink(reference_operation, RelationType.FOLLOWED_BY)
    circuit.add(sub_circuit._structure)
"""
import sys
import warnings
from qce_circuit import DeclarativeCircuit, RelationLink, RelationType, Rx180, Rx90, Ry90, Ry180, Rym90


def describe(ops):
    return [f"{type(o).__name__}(q{o.channel_identifiers[0].id})" for o in ops]


def build(entry_point: str):
    main = DeclarativeCircuit()
    main.add(Rx180(0))
    main.add(Rx90(0))
    anchor = main.add(Ry90(0))  # third operation on qubit 0
    # Block on qubit 1, declared to FOLLOW the anchor
    sub = DeclarativeCircuit(relation=RelationLink(anchor, RelationType.FOLLOWED_BY))
    sub.add(Ry180(1))
    sub.add(Rym90(1))
    with warnings.catch_warnings(record=True) as caught:
        warnings.simplefilter('always')
        if entry_point == 'add(circuit)':
            added = main.add(sub)
        elif entry_point == 'add(structure)':
            added = main.add(sub.circuit_structure)
        elif entry_point == 'add_sub_circuit':
            added = main.add_sub_circuit(sub.circuit_structure)
        elif entry_point == 'add_declarative_circuit':
            added = main.add_declarative_circuit(sub)
        elif entry_point == 'add_operation (no copy, control)':
            added = main.add_operation(sub.circuit_structure)
    return main, anchor, added, caught


violations = 0
for entry_point in ['add(circuit)', 'add(structure)', 'add_sub_circuit', 'add_declarative_circuit', 'add_operation (no copy, control)']:
    main, anchor, added, caught = build(entry_point)
    ops = main.operations
    index_anchor = [i for i, o in enumerate(ops) if o is anchor][0]
    block_indices = [i for i, o in enumerate(ops) if o.channel_identifiers[0].id == 1]
    print(f"--- entry point: {entry_point}")
    print("    listing:", describe(ops))
    print(f"    relation of the added block: {added.relation_link} (has_relation={added.has_relation}), warnings raised: {len(caught)}")
    print(f"    anchor Ry90(q0) at index {index_anchor}; block operations at {block_indices}; "
          f"block start time {added.start_time}, anchor end time {anchor.end_time}")
    if min(block_indices) < index_anchor or not added.has_relation:
        violations += 1
        print("    VIOLATION: block declared FOLLOWED_BY anchor, but it is listed (and scheduled) before the anchor; "
              "the relation was dropped without any warning")
    else:
        print("    ok: block listed after the operation it follows")

print()
print("Property C02 requires: no operation is listed before the operation its relation refers to, for build programs "
      "with explicit relations. Observed: the explicit relation given to a sub-circuit survives add_operation only; "
      "every copying entry point (add / add_sub_circuit / add_declarative_circuit) drops it silently.")
sys.exit(1 if violations else 0)
