"""
hunt_C02_3: after flatten() an operation that was declared to FOLLOW a sub-circuit is listed before operations of that
sub-circuit; once a registry-controlled duration is changed, it is listed before the very operation that
`relation_link.reference_node` returns.

Property C02 clause: "it never lists an operation before the operation its relation refers to"
(the listing "is what every exporter ... consume", exporters work on the flattened circuit).

Legality: add(sub-circuit), RelationLink(<returned block>, FOLLOWED_BY) (tests/language/test_declarative_circuit.py uses
RelationLink(circuit.get_last_entry(), ...) in the same way), Wait(duration_strategy=RegistryDurationStrategy(...)) and a later
DurationRegistry.set_registry_at(...) are the documented "registry" workflow of examples.ipynb, flatten() is public API
(used by construct_repetition_code_multi_round_circuit and the exporters).
"""
import sys
from qce_circuit import (
    DeclarativeCircuit, RelationLink, RelationType, DurationRegistry, RegistryDurationStrategy,
    Wait, Rx180, Ry180, Rx90, Hadamard,
)


def show(circuit):
    ops = circuit.operations
    position = {id(o): i for i, o in enumerate(ops)}
    rows = []
    for i, o in enumerate(ops):
        link = o.relation_link
        group = getattr(link, '_reference_nodes', None)
        rows.append((i, o, position.get(id(link.reference_node)), None if group is None else [position.get(id(g)) for g in group]))
        print(f"    {i}: {type(o).__name__}(q{o.channel_identifiers[0].id}) start={o.start_time} "
              f"reference_node at index {rows[-1][2]}" + (f", relation group at indices {rows[-1][3]}" if group is not None else ""))
    return rows


registry = DurationRegistry()
tau = RegistryDurationStrategy(registry, registry_key='tau')
registry.set_registry_at('tau', 10.0)

block = DeclarativeCircuit()
block.add(Wait(1, duration_strategy=tau))
block.add(Rx180(2))
block.add(Ry180(2))
block.add(Rx90(2))

main = DeclarativeCircuit()
added_block = main.add(block)
follower = main.add(Hadamard(3, relation=RelationLink(added_block, RelationType.FOLLOWED_BY)))

print("nested circuit (before flatten): follower is listed after the whole block")
show(main)
flat = main.flatten()
print("flattened circuit, tau = 10.0:")
rows = show(flat)
violations = 0
index_follower = [i for i, o, _, _ in rows if o is follower][0]
group = [g for i, o, _, g in rows if o is follower][0]
later_members = [g for g in group if g is not None and g > index_follower]
if later_members:
    violations += 1
    print(f"  VIOLATION (relation to the block): follower at index {index_follower} is listed before block members {later_members} "
          f"of the block it was declared to follow")

registry.set_registry_at('tau', 0.5)  # sweep of the wait time, as in examples.ipynb
print("same flattened circuit, tau = 0.5:")
rows = show(flat)
index_reference = [r for i, o, r, _ in rows if o is follower][0]
if index_reference is None or index_reference > index_follower:
    violations += 1
    print(f"  VIOLATION (relation_link.reference_node): follower at index {index_follower} is listed before the operation its "
          f"relation refers to (index {index_reference})")
print("Property C02 requires: an operation is never listed before the operation(s) its relation refers to.")
sys.exit(1 if violations else 0)
