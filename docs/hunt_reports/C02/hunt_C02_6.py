"""
hunt_C02_6 (borderline, a warning is raised): an explicit relation to an operation that IS part of the circuit listing, but
lives inside a previously added sub-circuit, is discarded ("... is not present in circuit") and the new operation is
listed before the operation it was declared to follow.

Property C02 clause: "it never lists an operation before the operation its relation refers to" for build programs with
explicit relations.

Legality: the reference operation is taken from the public listing `circuit.operations` of the same circuit, RelationLink(...)
accepts any circuit operation. CircuitGraphBranch.get_corresponding_node only searches the top-level nodes of the graph,
CircuitGraphBranch.add_to_graph then warns that the operation "is not present in circuit" and resets the relation.
"""
import sys
import warnings
from qce_circuit import DeclarativeCircuit, RelationLink, RelationType, Rx180, Ry180, Rx90, Hadamard

main = DeclarativeCircuit()
main.add(Rx180(0))
block = DeclarativeCircuit()
block.add(Ry180(0))
block.add(Rx90(0))
main.add(block)
anchor = main.operations[-1]  # Rx90 inside the added block, part of the listing of main
with warnings.catch_warnings(record=True) as caught:
    warnings.simplefilter('always')
    follower = main.add(Hadamard(1, relation=RelationLink(anchor, RelationType.FOLLOWED_BY)))
ops = main.operations
print("listing:", [f"{type(o).__name__}(q{o.channel_identifiers[0].id})" for o in ops])
print("warnings:", [str(w.message)[:100] + '...' for w in caught])
index_anchor = [i for i, o in enumerate(ops) if o is anchor][0]
index_follower = [i for i, o in enumerate(ops) if o is follower][0]
print(f"anchor (in listing: {any(o is anchor for o in ops)}) at index {index_anchor}, follower at index {index_follower}, "
      f"follower relation now: {follower.relation_link}, follower start {follower.start_time}, anchor end {anchor.end_time}")
if index_follower < index_anchor:
    print("VIOLATION: follower was added with FOLLOWED_BY anchor, but is listed (and scheduled) before the anchor")
    sys.exit(1)
sys.exit(0)
