"""
hunt_C02_5 (borderline, repetition modifier): a block with repetition number 0 is listed once after apply_modifiers(), i.e.
exactly like a block with repetition number 1.

Property C02 clause: "Nothing lost, nothing duplicated ... contains exactly the operations that were added (sub-circuits
expanded in place ...)": a block that is repeated 0 times contributes its operations once.

Legality: FixedRepetitionStrategy(repetitions: int) accepts any int; the exported constructor
construct_repetition_code_circuit_simplified(qec_cycles=0, ...) passes FixedRepetitionStrategy(repetitions=qec_cycles)
(library/repetition_code/circuit_constructors.py), while its sibling construct_repetition_code_circuit special-cases 0 cycles;
RepetitionRegistry values are free integers as well.
Cause: CircuitCompositeOperation.repeat(times) runs `for i in range(times - 1): extend(copy)`, for times <= 0 it leaves the one copy.
"""
import sys
import warnings
from collections import Counter
from qce_circuit import (
    DeclarativeCircuit, FixedRepetitionStrategy, Rx180, Ry90, CPhase, construct_repetition_code_circuit_simplified,
    InitialStateEnum,
)
from qce_circuit.language.intrf_declarative_circuit import InitialStateContainer

warnings.simplefilter('ignore')
violations = 0
counts = {}
for repetitions in (0, 1, 2, 3):
    block = DeclarativeCircuit(repetition_strategy=FixedRepetitionStrategy(repetitions))
    block.add(Rx180(0))
    block.add(CPhase(0, 1))
    main = DeclarativeCircuit()
    main.add(Ry90(2))
    main.add(block)
    modified = main.apply_modifiers()
    counts[repetitions] = len(modified.operations)
    expected = 1 + 2 * repetitions
    print(f"block of 2 operations x {repetitions} repetitions + 1 operation: listed {counts[repetitions]}, expected {expected}")
    if counts[repetitions] != expected:
        violations += 1
        print("  VIOLATION: the block that is repeated 0 times is listed once")

state = InitialStateContainer.from_ordered_list([InitialStateEnum.ZERO, InitialStateEnum.ONE, InitialStateEnum.ZERO])
library_counts = {}
for cycles in (0, 1, 2):
    circuit = construct_repetition_code_circuit_simplified(qec_cycles=cycles, initial_state=state).apply_modifiers()
    library_counts[cycles] = Counter(type(o).__name__ for o in circuit.operations)
    print(f"construct_repetition_code_circuit_simplified(qec_cycles={cycles}): {sum(library_counts[cycles].values())} operations, "
          f"{library_counts[cycles]['CPhase']} CPhase")
if library_counts[0] == library_counts[1]:
    violations += 1
    print("  VIOLATION: the 0-cycle circuit lists the same operations as the 1-cycle circuit (one full QEC cycle that was not asked for)")
sys.exit(1 if violations else 0)
