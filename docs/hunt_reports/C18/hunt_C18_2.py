"""
C18 finding 2: the figure of an empty circuit (no occupied channel) has height 0 and cannot be rendered.

Clause violated: "Drawing a circuit succeeds for every circuit the API can build" /
"sizes the figure ..." (figure size (2.0, 0.0) is not a usable size).
plot_circuit itself returns, every attempt to render / save / display the returned figure raises.
Run: cd /tmp/hunt-C18 && PYTHONPATH=/tmp/hunt-C18/src /venv/bin/python hunt_C18_2.py
"""
import io
import sys
import warnings
import matplotlib
matplotlib.use('Agg')
import matplotlib.pyplot as plt
from qce_circuit import DeclarativeCircuit, plot_circuit

warnings.simplefilter('ignore')
violations = 0

builders = {
    'DeclarativeCircuit()': lambda: DeclarativeCircuit(),
    'circuit that only contains an empty sub-circuit': lambda: (lambda c: (c.add(DeclarativeCircuit()), c)[1])(DeclarativeCircuit()),
}
for name, build in builders.items():
    for compact in (True, False):
        circuit = build()
        fig, ax = plot_circuit(circuit, compact_visualization=compact)
        size = tuple(fig.get_size_inches())
        try:
            fig.savefig(io.BytesIO(), format='png')
            outcome = 'figure rendered'
        except Exception as e:  # noqa
            violations += 1
            outcome = f'rendering the returned figure raised {type(e).__name__}: {e}'
        plt.close(fig)
        print(f"{name}, compact={compact}: figure size {size}; observed: {outcome}")
print("required: drawing an (empty but legal) circuit yields a figure that can be rendered, i.e. a positive figure size")
sys.exit(1 if violations else 0)
