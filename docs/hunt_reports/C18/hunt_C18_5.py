"""
C18 finding 5 (weak): drawing is the first 'listing' of the circuit and a listing re-links nested operations,
so the start time reported by an operation handle differs before and after drawing.

Clause violated: "Drawing does not change the circuit: operations, schedule ... are the same before and after".
Run: cd /tmp/hunt-C18 && PYTHONPATH=/tmp/hunt-C18/src /venv/bin/python hunt_C18_5.py
"""
import sys
import warnings
import matplotlib
matplotlib.use('Agg')
import matplotlib.pyplot as plt
from qce_circuit import DeclarativeCircuit, RelationLink, Reset, Rx180, plot_circuit

warnings.simplefilter('ignore')

reference = Reset(5)                                    # ends at t=2.0
gate = Rx180(0)
inner = DeclarativeCircuit()
inner.add(gate)
outer = DeclarativeCircuit(relation=RelationLink(reference))  # constructor argument `relation`
outer.add_operation(inner.circuit_structure)            # IDeclarativeCircuit.add_operation(ICircuitOperation), no copy

before = (gate.start_time, id(gate.relation_link), gate.has_relation)
fig, ax = plot_circuit(outer, compact_visualization=False)
plt.close(fig)
after = (gate.start_time, id(gate.relation_link), gate.has_relation)
print("gate (start_time, id(relation_link), has_relation) before drawing:", before)
print("gate (start_time, id(relation_link), has_relation) after  drawing:", after)
print("required: identical; drawing must leave operations and schedule alone")
sys.exit(1 if before[0] != after[0] or before[2] != after[2] else 0)
