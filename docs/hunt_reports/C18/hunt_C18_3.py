"""
C18 finding 3: two-qubit operations other than CPhase / VirtualTwoQubitVacant are silently left out of the drawing.

Clause violated: "places each operation on the row of its qubit ... at the horizontal position of its start time".
TwoQubitVirtualPhase (used by the library's own repetition-code rounds) and the generic TwoQubitOperation
produce no artist at all, while an unknown single-qubit kind is drawn through the '?' fallback (DefaultFactory).
Run: cd /tmp/hunt-C18 && PYTHONPATH=/tmp/hunt-C18/src /venv/bin/python hunt_C18_3.py
"""
import sys
import warnings
import matplotlib
matplotlib.use('Agg')
import matplotlib.pyplot as plt
from qce_circuit import DeclarativeCircuit, CPhase, FixedDurationStrategy, plot_circuit
from qce_circuit.structure.circuit_operations import (
    TwoQubitVirtualPhase, TwoQubitOperation, SingleQubitOperation, VirtualTwoQubitVacant,
)

warnings.simplefilter('ignore')


def artists_of(operation) -> int:
    """Number of artists in the drawing on top of the drawing of the same circuit without the operation."""
    def count(with_operation: bool) -> int:
        circuit = DeclarativeCircuit()
        circuit.add(CPhase(0, 1))  # occupies both rows
        if with_operation:
            circuit.add(operation)
        fig, ax = plot_circuit(circuit)
        n = len(ax.patches) + len(ax.lines) + len(ax.texts)
        plt.close(fig)
        return n
    return count(True) - count(False)


candidates = {
    'CPhase(0, 1)  [reference]': CPhase(0, 1),
    'VirtualTwoQubitVacant(0, 1, duration 1.0)  [reference]': VirtualTwoQubitVacant(0, 1, duration_strategy=FixedDurationStrategy(1.0)),
    "SingleQubitOperation(0, duration 1.0)  [reference, '?' fallback]": SingleQubitOperation(0, duration_strategy=FixedDurationStrategy(1.0)),
    'TwoQubitVirtualPhase(0, 1)': TwoQubitVirtualPhase(0, 1),
    'TwoQubitOperation(0, 1, duration 1.0)': TwoQubitOperation(0, 1, duration_strategy=FixedDurationStrategy(1.0)),
}
violations = 0
for name, operation in candidates.items():
    n = artists_of(operation)
    print(f"{name}: {n} artists added to the axes")
    if n == 0:
        violations += 1
print("required: every operation of the circuit is placed on the row(s) of its qubit(s); observed: 0 artists for the last two kinds")
sys.exit(1 if violations else 0)
