"""
C18 finding 6 (weak): a multi-qubit operation that is drawn through the '?' fallback is put on the row of its FIRST
qubit only (in build order, not in the requested channel order). The library's own repetition-code circuit contains
such operations (CoordinateShiftOperation over all qubits).

Clause violated: "places each operation on the row of its qubit in the requested order".
Run: cd /tmp/hunt-C18 && PYTHONPATH=/tmp/hunt-C18/src /venv/bin/python hunt_C18_6.py
"""
import sys
import warnings
import matplotlib
matplotlib.use('Agg')
import matplotlib.pyplot as plt
from qce_circuit import DeclarativeCircuit, Rx180, Barrier, plot_circuit
from qce_circuit.addon_stim.circuit_operations import CoordinateShiftOperation

warnings.simplefilter('ignore')
violations = 0

for kind in (Barrier, CoordinateShiftOperation):
    circuit = DeclarativeCircuit()
    for q in (0, 1, 2):
        circuit.add(Rx180(q))
    fig, ax = plot_circuit(circuit, channel_order=[2, 1, 0])
    n_patches, n_lines, n_texts = len(ax.patches), len(ax.lines), len(ax.texts)
    plt.close(fig)
    circuit.add(kind([2, 0, 1]))
    fig, ax = plot_circuit(circuit, channel_order=[2, 1, 0])
    new_patches = ax.patches[n_patches:]
    new_lines = ax.lines[n_lines:]
    rows = set()
    for p in new_patches:
        rows.add(round(-(p.get_y() + 0.5 * p.get_height()) / 1.2))
    for l in new_lines:
        ys = l.get_ydata()
        rows.update(range(round(-(max(ys) - 0.5) / 1.2), round(-(min(ys) + 0.5) / 1.2) + 1))
    plt.close(fig)
    print(f"{kind.__name__}([2, 0, 1]) with channel_order [2, 1, 0]: drawn on row(s) {sorted(rows)}; required rows [0, 1, 2]")
    if sorted(rows) != [0, 1, 2]:
        violations += 1
sys.exit(1 if violations else 0)
