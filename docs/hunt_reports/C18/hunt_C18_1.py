"""
C18 finding 1: a circuit that contains an empty Barrier cannot be drawn.

Clause violated: "Drawing a circuit succeeds for every circuit the API can build".
Run: cd /tmp/hunt-C18 && PYTHONPATH=/tmp/hunt-C18/src /venv/bin/python hunt_C18_1.py
"""
import sys
import warnings
import matplotlib
matplotlib.use('Agg')
import matplotlib.pyplot as plt
from qce_circuit import DeclarativeCircuit, Rx180, Ry90, Barrier, plot_circuit

warnings.simplefilter('ignore')
violations = 0

for compact in (True, False):
    circuit = DeclarativeCircuit()
    circuit.add(Rx180(0))
    circuit.add(Barrier([]))       # Barrier.qubit_indices: List[int], no lower bound on its length
    circuit.add(Ry90(0))
    # The circuit itself is perfectly usable: listing and schedule work
    schedule = [(type(op).__name__, op.start_time, op.duration) for op in circuit.operations]
    print(f"compact={compact}: schedule of the circuit: {schedule}")
    try:
        fig, ax = plot_circuit(circuit, compact_visualization=compact)
        plt.close(fig)
        print("  observed: drawing succeeded")
    except Exception as e:  # noqa
        violations += 1
        print(f"  observed: plot_circuit raised {type(e).__name__}: {e}")
    print("  required: drawing succeeds (the barrier spans no row, so nothing has to be drawn for it)")

sys.exit(1 if violations else 0)
