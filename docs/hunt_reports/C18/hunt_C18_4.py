"""
C18 finding 4: a (compact) drawing changes the schedule the circuit reports, and compact / non-compact drawings
of the same circuit disagree, when a DynamicDurationStrategy changed its value since the last evaluation.

Clause violated: "Drawing does not change the circuit: ... schedule ... are the same before and after".
Run: cd /tmp/hunt-C18 && PYTHONPATH=/tmp/hunt-C18/src /venv/bin/python hunt_C18_4.py
"""
import sys
import warnings
import matplotlib
matplotlib.use('Agg')
import matplotlib.pyplot as plt
from qce_circuit import DeclarativeCircuit, Wait, Rx180, plot_circuit
from qce_circuit.structure.registry_duration import DynamicDurationStrategy

warnings.simplefilter('ignore')

tau = [3.0]
circuit = DeclarativeCircuit()
circuit.add(Wait(0, duration_strategy=DynamicDurationStrategy(duration_call=lambda: tau[0])))
circuit.add(Rx180(0))


def schedule():
    return [(type(op).__name__, op.start_time, op.duration) for op in circuit.operations]


def drawn_x_of_gate(compact: bool) -> float:
    fig, ax = plot_circuit(circuit, compact_visualization=compact)
    x = [p.get_x() for p in ax.patches if hasattr(p, 'get_x')][-1]  # rectangle of the Rx180 block
    plt.close(fig)
    return x


print("schedule, tau=3     :", schedule())
tau[0] = 5.0                        # the strategy is 'dynamic': its value is allowed to change
before = schedule()
print("schedule, tau=5     :", before)
x_plain = drawn_x_of_gate(compact=False)
after_plain = schedule()
x_compact = drawn_x_of_gate(compact=True)
after_compact = schedule()
print("Rx180 drawn at x (non-compact):", x_plain, " schedule afterwards:", after_plain)
print("Rx180 drawn at x (compact)    :", x_compact, " schedule afterwards:", after_compact)
print("required: schedule before drawing == schedule after drawing (and both drawings show the same start, "
      "the Wait has a fixed-value strategy in both modes)")
violation = (before != after_compact) or (x_plain != x_compact)
print("observed:", "schedule changed by drawing / drawings disagree" if violation else "no difference")
sys.exit(1 if violation else 0)
