"""C12 finding 3: the chain of RelativeIndexStrategy objects is evaluated recursively (4 Python frames per block), so an
experiment description with roughly 245 or more distinct round counts cannot be indexed at all: kernel_cycle_length,
every get_*_indices call on a late block and estimate_experiment_repetitions raise RecursionError (default limit 1000).
Required: 'for any list of distinct round counts' the kernels tile the range and the estimate inverts the size."""
import sys
from qce_circuit.structure.acquisition_indexing.kernel_repetition_code import RepetitionExperimentKernel
from qce_circuit.connectivity.intrf_channel_identifier import QubitIDObj

D, A = [QubitIDObj('D1')], [QubitIDObj('X1')]
bad = False
print("recursion limit:", sys.getrecursionlimit())
for m in (60, 240, 250, 300):
    rounds = list(range(1, m + 1))  # same shape as tests/.../test_index_kernel_repetition_code.py (range(1, 61))
    expected_cycle = sum(rounds) + len(rounds) + 6  # heralded + calibration
    try:
        k = RepetitionExperimentKernel(rounds, True, True, D, A, 1)
        L = k.kernel_cycle_length
        est = RepetitionExperimentKernel.estimate_experiment_repetitions(rounds, True, True, 2 * expected_cycle)
        print(f"{m} blocks: cycle length {L} (expected {expected_cycle}), estimate {est}")
    except RecursionError as e:
        print(f"{m} blocks: RecursionError ({str(e)[:50]}) - required cycle length {expected_cycle}, estimate 2")
        bad = True
if bad:
    print("VIOLATION: legal round-count list cannot be indexed")
    sys.exit(1)
