"""C12 finding 1: GeneralCalibrationIndexKernel (kernel_calibration.py) mis-assigns the calibration-state
indices whenever heralded_initialization is False (which is the DEFAULT of the dataclass field).
Required: the per-state calibration categories are pairwise disjoint, lie on the right slot and together tile
[start_index, stop_index] of the kernel.  Observed: slot 0 of every cycle is never assigned, the state slices
overlap (same acquisition index reported for STATE_0 and STATE_1) or are empty."""
import sys
from qce_circuit.structure.acquisition_indexing.kernel_calibration import GeneralCalibrationIndexKernel
from qce_circuit.structure.acquisition_indexing.intrf_index_strategy import FixedIndexStrategy
from qce_circuit.structure.acquisition_indexing.intrf_stabilizer_index_kernel import StateKey
from qce_circuit.connectivity.intrf_channel_identifier import QubitIDObj

bad = False
for f_state in (False, True):
    for repetitions in (1, 2, 3):
        kernel = GeneralCalibrationIndexKernel(
            index_offset_strategy=FixedIndexStrategy(index=0),
            f_state=f_state,
            repetitions=repetitions,
        )  # heralded_initialization left at its default (False)
        full = kernel.contains(QubitIDObj('Q'))  # = range(start_index, stop_index + 1)
        cats = {s.name: kernel.get_calibration_state_measurement_index(s) for s in kernel.contained_states}
        heralded = sum((kernel.get_heralded_state_measurement_index(s) for s in StateKey), [])
        flat = sorted(sum(cats.values(), []) + heralded)
        overlap = len(flat) != len(set(flat))
        tiles = flat == full
        # what a non-heralded kernel has to give: state s sits on slot s of every cycle
        expected = {s.name: full[s.value::kernel.cycle_length] for s in kernel.contained_states}
        print(f"f_state={f_state} repetitions={repetitions} kernel=[{kernel.start_index},{kernel.stop_index}] cycle_length={kernel.cycle_length}")
        print(f"   observed per state: {cats}")
        print(f"   required per state: {expected}")
        print(f"   overlap between states: {overlap}; categories tile the kernel: {tiles}")
        if overlap or not tiles or cats != expected:
            bad = True
if bad:
    print("VIOLATION: calibration-per-state categories overlap / leave gaps inside the non-heralded general calibration kernel")
    sys.exit(1)
print("property holds")
