"""C12 finding 5 (aliasing): RepetitionExperimentKernel keeps the caller's identifier lists by reference inside the
(frozen) RepetitionIndexKernel blocks, but builds the calibration block from a COPY (list concatenation).  If the caller
later extends the list it passed in, the per-block categories start to answer for the new qubit while the calibration
categories do not: for that ancilla the categories no longer cover the cycle (6 calibration slots of every cycle
missing) although the kernel reports them for every other ancilla.  A kernel built afterwards from the same lists gives
a different answer, so the result depends on when the kernel was observed."""
import sys
import numpy as np
from qce_circuit.structure.acquisition_indexing.kernel_repetition_code import RepetitionExperimentKernel
from qce_circuit.structure.acquisition_indexing.intrf_stabilizer_index_kernel import StateKey
from qce_circuit.connectivity.intrf_channel_identifier import QubitIDObj

def categories(k, q, rounds):
    out = set()
    for n in rounds:
        out |= set(np.asarray(k.get_heralded_cycle_acquisition_indices(q, n)).ravel().astype(int).tolist())
        out |= set(np.asarray(k.get_stabilizer_and_projected_cycle_acquisition_indices(q, n)).ravel().astype(int).tolist())
    for s in StateKey:
        out |= set(k.get_heralded_calibration_acquisition_indices(q, s).astype(int).tolist())
        out |= set(k.get_projected_calibration_acquisition_indices(q, s).astype(int).tolist())
    return out

data, ancilla, rounds = [QubitIDObj('D1')], [QubitIDObj('X1')], [2, 3]
k = RepetitionExperimentKernel(rounds, True, True, data, ancilla, 1)
new = QubitIDObj('X2')
before = categories(k, new, rounds)
ancilla.append(new)                      # caller keeps using / extending its own list
after = categories(k, new, rounds)
fresh = categories(RepetitionExperimentKernel(rounds, True, True, data, ancilla, 1), new, rounds)
cycle = set(range(k.kernel_cycle_length))
print("unknown qubit before the caller's list edit :", sorted(before))
print("same kernel after the caller's list edit     :", sorted(after))
print("fresh kernel from the same lists             :", sorted(fresh))
print("cycle                                        :", sorted(cycle))
if after != before and after != fresh:
    print(f"VIOLATION: kernel now treats X2 as ancilla of the blocks but its categories miss {sorted(cycle - after)} (calibration slots); neither the snapshot nor the live view")
    sys.exit(1)
