"""C12 finding 4: estimate_experiment_repetitions uses float division int(dataset_size / cycle_length); for
dataset_size > 2**53 the quotient is rounded and the function refuses (AssertionError) a dataset size that IS exactly
repetitions x cycle length.  Required: the estimate inverts dataset size = repetitions x cycle length for all repetitions >= 1."""
import sys
from qce_circuit.structure.acquisition_indexing.kernel_repetition_code import RepetitionExperimentKernel
from qce_circuit.connectivity.intrf_channel_identifier import QubitIDObj

rounds, heralded, calib = [2, 1], False, False
L = RepetitionExperimentKernel(rounds, heralded, calib, [QubitIDObj('D1')], [QubitIDObj('X1')], 1).kernel_cycle_length
bad = False
for reps in (5, 3002399751580330, 3002399751580331, 2**53 + 1, 10**17 + 1):
    size = reps * L
    try:
        est = RepetitionExperimentKernel.estimate_experiment_repetitions(rounds, heralded, calib, size)
        ok = est == reps
        print(f"reps={reps} size={size}: estimate {est} {'OK' if ok else 'WRONG'}")
        bad |= not ok
    except AssertionError as e:
        print(f"reps={reps} size={size} (= reps x {L} exactly): AssertionError {str(e)[-60:]}")
        bad = True
if bad:
    print("VIOLATION: repetition estimate does not invert dataset size = repetitions x cycle length")
    sys.exit(1)
