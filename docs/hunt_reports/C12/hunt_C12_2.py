"""C12 finding 2: RepetitionExperimentKernel.stop_index is one PAST the last acquisition index, whereas every other
IIndexingKernel (and IIndexingKernel.kernel_length, RelativeIndexStrategy) treats stop_index as INCLUSIVE.
Consequences: kernel_length == repetitions * cycle_length + 1 (so the dataset size derived from the kernel is not
inverted by estimate_experiment_repetitions), and a kernel placed after the experiment with RelativeIndexStrategy
leaves a one-index gap (kernels no longer contiguous)."""
import sys
import numpy as np
from qce_circuit.structure.acquisition_indexing.kernel_repetition_code import RepetitionExperimentKernel
from qce_circuit.structure.acquisition_indexing.kernel_calibration import QutritCalibrationIndexKernel
from qce_circuit.structure.acquisition_indexing.intrf_index_strategy import RelativeIndexStrategy
from qce_circuit.structure.acquisition_indexing.intrf_stabilizer_index_kernel import StateKey
from qce_circuit.connectivity.intrf_channel_identifier import QubitIDObj

D, A = [QubitIDObj('D1')], [QubitIDObj('X1')]
rounds, heralded, calib, reps = [2, 0, 1], True, True, 3
k = RepetitionExperimentKernel(rounds, heralded, calib, D, A, reps)
used = set()
for q in D + A:
    for n in rounds:
        used |= set(np.asarray(k.get_heralded_cycle_acquisition_indices(q, n)).ravel().astype(int).tolist())
        used |= set(np.asarray(k.get_stabilizer_and_projected_cycle_acquisition_indices(q, n)).ravel().astype(int).tolist())
    for s in StateKey:
        used |= set(k.get_heralded_calibration_acquisition_indices(q, s).astype(int).tolist())
        used |= set(k.get_projected_calibration_acquisition_indices(q, s).astype(int).tolist())
last_used = max(used)
size = reps * k.kernel_cycle_length
print(f"cycle length {k.kernel_cycle_length}, repetitions {reps}: dataset size {size}, last index used {last_used}")
print(f"start_index={k.start_index} stop_index={k.stop_index} kernel_length={k.kernel_length}")
bad = False
if k.stop_index != last_used:
    print(f"VIOLATION: stop_index {k.stop_index} is not an acquisition index of the experiment (inclusive end is {last_used})")
    bad = True
if k.kernel_length != size:
    print(f"VIOLATION: kernel_length {k.kernel_length} != repetitions x cycle length {size}")
    try:
        est = RepetitionExperimentKernel.estimate_experiment_repetitions(rounds, heralded, calib, dataset_size=k.kernel_length)
        print("   estimate from kernel_length:", est)
    except AssertionError as e:
        print("   estimate_experiment_repetitions(dataset_size=kernel_length) ->", str(e)[:120])
    bad = True
follower = QutritCalibrationIndexKernel(False, RelativeIndexStrategy(reference_index_kernel=k), D + A)
if follower.start_index != last_used + 1:
    print(f"VIOLATION: kernel chained after the experiment starts at {follower.start_index}, index {last_used + 1} belongs to no kernel (gap)")
    bad = True
sys.exit(1 if bad else 0)
