"""Known-findings protocol.

/verif/known_findings.json is committed and never written at run time.  Entries:

    {"id": "F-C03-sibling-copy", "property": "C03", "status": "open" | "fixed",
     "what": "...", "commit": "<sha, for fixed>", "repro": "known_findings/<file>.json",
     "signature": {"part": [...], "kind": [...], "predicate": "<name in PREDICATES>"}}

* open   : a genuine defect recorded rather than repaired.  The check replays `repro`; while it still
           fails, `KNOWN-FINDING: property=<id> <what>` is printed.  During generation a failure is
           attributed to the entry only if part/kind match and the named predicate holds on the case.
* fixed  : suppresses nothing.  The repro is replayed as a regression input and must pass.
"""
from __future__ import annotations

import json
import os
from typing import Any, Callable, Dict, List, Optional

from . import env

FILE = os.environ.get("VCHECK_FINDINGS_FILE") or os.path.join(env.VERIF_DIR, "known_findings.json")

# name -> predicate(case, facts) ; registered by property modules next to the oracle they belong to
PREDICATES: Dict[str, Callable[[Any, Dict[str, Any]], bool]] = {}


def predicate(name: str):
    def deco(fn):
        PREDICATES[name] = fn
        return fn
    return deco


class Findings:
    def __init__(self, entries: List[Dict[str, Any]]):
        self.entries = entries

    @classmethod
    def load(cls) -> "Findings":
        if not os.path.exists(FILE):
            return cls([])
        with open(FILE) as f:
            data = json.load(f)
        return cls(data.get("findings", []))

    def for_property(self, prop: str, status: Optional[str] = None) -> List[Dict[str, Any]]:
        return [e for e in self.entries if e["property"] == prop and (status is None or e["status"] == status)]

    def explains(self, prop: str, part: str, kind: str, case: Any, facts: Dict[str, Any]) -> Optional[str]:
        for e in self.for_property(prop, "open"):
            sig = e.get("signature", {})
            if sig.get("part") and part not in sig["part"]:
                continue
            if sig.get("kind") and not any(kind == k or kind.startswith(k) for k in sig["kind"]):
                continue
            pname = sig.get("predicate")
            if pname:
                pred = PREDICATES.get(pname)
                if pred is None:
                    continue      # predicate unknown: never explain by default
                try:
                    if not pred(case, facts):
                        continue
                except Exception:
                    continue
            return e["id"]
        return None
