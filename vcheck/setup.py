"""MANIFEST.setup_cmd: make sure Hypothesis is importable offline and the repository imports from source."""
import sys
from . import env


def main() -> int:
    env.init()
    import hypothesis
    import qce_circuit
    fuzz = env.bootstrap_atheris()
    print(f"setup ok: hypothesis {hypothesis.__version__}, qce_circuit from {qce_circuit.__file__}, "
          f"atheris {'available' if fuzz else 'NOT available (coverage-guided parts will be skipped and noted)'}")
    return 0


if __name__ == "__main__":
    sys.exit(main())
