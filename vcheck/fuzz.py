"""Coverage-guided driver: the same (strategy, body, oracle) of a Hypothesis part, driven by libFuzzer through atheris.

    python -m vcheck.fuzz <ID> <part> --runs N --seed S --out FILE [--tier quick|thorough]

atheris instruments `qce_circuit` at import; libFuzzer mutates a byte string that Hypothesis decodes into a structured
case (`test.hypothesis.fuzz_one_input`), so coverage feedback steers the *same* generators towards new library branches.
The semantic oracle is the part's body, i.e. a Violation - not only a crash - ends the campaign and is written as a replay.
Exit codes: 0 finished without violation, 77 violation (record in FILE), 2 harness error, 3 atheris unavailable.
"""
from __future__ import annotations

import argparse
import json
import os
import sys
import tempfile
import time


def main() -> int:
    ap = argparse.ArgumentParser()
    ap.add_argument("prop")
    ap.add_argument("part")
    ap.add_argument("--runs", type=int, default=2000)
    ap.add_argument("--seed", type=int, default=1)
    ap.add_argument("--out", required=True)
    ap.add_argument("--tier", default="thorough")
    ap.add_argument("--shard", default="0/1")
    ap.add_argument("--corpus")
    args = ap.parse_args()

    from . import env
    env.setup_paths()
    env.bootstrap_hypothesis()
    if not env.bootstrap_atheris():
        with open(args.out, "w") as f:
            json.dump({"unavailable": True}, f)
        return 3
    import atheris
    with atheris.instrument_imports(include=["qce_circuit"], enable_loader_override=False):
        env.init()
    from hypothesis import given, settings, HealthCheck
    from .harness import Ctx, Violation, derive_seed
    from .findings import Findings
    from .run import load_module

    mod = load_module(args.prop.upper())
    part = {p.name: p for p in mod.parts()}[args.part]
    shard, nshards = (int(x) for x in args.shard.split("/"))
    ctx = Ctx(args.prop.upper(), args.tier, args.seed, shard, nshards, Findings.load())
    ctx.part = part.name + "+fuzz"
    strategy = part.strategy() if callable(part.strategy) else part.strategy
    state = {"calls": 0, "t0": time.time()}

    @settings(database=None, deadline=None, suppress_health_check=list(HealthCheck))
    @given(strategy)
    def test(case):
        env.clear_time_caches()
        state["case"] = case
        part.body(case, ctx)

    fuzz_one = test.hypothesis.fuzz_one_input

    def dump(violation=None):
        out = {"rec": ctx.rec.dump(), "violations": [violation] if violation else [], "calls": state["calls"],
               "wall_s": time.time() - state["t0"]}
        tmp = args.out + ".tmp"
        with open(tmp, "w") as f:
            json.dump(out, f)
        os.replace(tmp, args.out)

    def target(data: bytes):
        state["calls"] += 1
        try:
            fuzz_one(data)
        except Violation as v:
            dump({"property": ctx.prop, "part": part.name, "kind": v.kind, "detail": v.detail[:4000], "case": state.get("case"),
                  "seed": args.seed, "tier": args.tier, "shard": shard, "found_by": "atheris"})
            os._exit(77)
        if state["calls"] % 250 == 0 or state["calls"] >= args.runs:
            dump()

    corpus = args.corpus or tempfile.mkdtemp(prefix="vcheck-fuzz-")
    os.makedirs(corpus, exist_ok=True)
    dump()
    argv = [sys.argv[0], f"-runs={args.runs}", f"-seed={derive_seed(args.seed, shard, part.name) % (2 ** 31 - 1) + 1}",
            "-max_len=8192", "-verbosity=0", "-print_final_stats=0", corpus]
    atheris.Setup(argv, target)
    try:
        atheris.Fuzz()          # does not return
    finally:
        dump()
    return 0


if __name__ == "__main__":
    sys.exit(main())
