"""C10 - library circuits never double-book a qubit channel.

Oracle = validity predicate over the times the circuit reports, evaluated with an own channel-matching rule:
two operations of non-zero length that share a channel (same qubit and same channel, or one side ALL) must occupy
disjoint open intervals; no non-zero-length operation on one of a barrier's qubits may overlap the barrier's
interval (for a zero-length barrier: strictly contain its instant).
"""
from __future__ import annotations

import itertools

from .. import env, findings
from ..harness import Part
from . import c09 as rep

PROPERTY_ID = "C10"
RULE = ("Constructor inputs as plain data x one global duration setting (readout, microwave, flux, reset) drawn from "
        "the dyadic values {0.25,0.5,1,1.5,2,3,4} (so readout<microwave, =, > all occur; about 1 case in 8 uses the "
        "default 2,1,1,2): construct_repetition_code_circuit ('full'), ..._simplified ('simplified'), "
        "..._multi_round_circuit ('multi', rounds = distinct counts from 0..5) with distance, data/ancilla bits, cycles, "
        "description route {none, from_chain, from_initial_state, from_connectivity(sub-chain of the three shipped "
        "layouts), composite description = such a sub-chain with 0-3 excluded gates / an excluded ancilla / one qubit whose rotations are excluded, "
        "given to the full or the simplified constructor, which yields parking-only gate layers and layers that close an ancilla without activating another} and refocusing on/off as in C09 (a third of the cases prepares data / ancilla qubits in any of the six initial states 0 1 + - +i -i), and construct_calibration_circuit (QUBIT / QUTRIT, 1..6 qubits on "
        "arbitrary distinct channel indices). layout_subchains enumerates every contiguous data-to-data window of the three shipped layouts (thorough: both directions) for the simplified constructor (windows of distance >= 4 and the thorough tier: both constructors), 2 cycles; duration_grid enumerates all 4^4 settings over {0.5,1,2,3} for a fixed d=2, "
        "3-cycle chain (full constructor, refocusing on) completely; cycle_sweep enumerates cycles 0..6 (thorough 0..8) x "
        "{full, simplified} x refocusing on/off x 3 (thorough 5) fixed duration settings for a d=3 chain. Each case builds the circuit inside the override "
        "twice: as built, and followed by apply_modifiers(); operations are listed once, then all times are read under "
        "the same setting. Non-trivial = durations differ from the default (2,1,1,2) and, for repetition-code "
        "constructors, at least one QEC cycle; distinct = distinct canonical JSON of the case.")
ASSUMPTIONS = [
    "composite descriptions given to the simplified constructor keep at least one two-qubit gate: with every gate, rotation and refocusing pulse excluded its QEC round is empty and the constructor raises NoReferenceOperationException (a loud refusal of a description with nothing to do, not an overlap)",
    "times are the reported start_time / end_time of every operation in circuit.operations, read inside the same temporary_override_get_registry_at block the circuit was built in; durations never change after construction",
    "times are read exactly as a user would read them (no memo is cleared between construction / apply_modifiers() and the first read; the stale-memo defect that used to disturb this is repaired, fix fd00686)",
    "channel matching is the rule of the property (same qubit and same channel or one side ALL), evaluated on (id, channel name) pairs; a multi-channel operation matches if any of its identifiers does",
    "a Barrier is any instance of structure.circuit_operations.Barrier (this includes the zero-length CoordinateShiftOperation); its qubits are its qubit_indices",
    "tolerance 1e-9 on dyadic durations; zero-length operations (virtual phases, detectors, observables) never count as occupying a channel",
    "as-built circuits list a repeated block once (count not applied); the claim for the repeated copies is checked on the unrolled variant",
]

DYADIC = [0.25, 0.5, 1.0, 1.5, 2.0, 3.0, 4.0]
DEFAULT = [2.0, 1.0, 1.0, 2.0]
TOL = 1e-9


# ------------------------------------------------------------------------------------------------ oracle
def matches(a, b):
    """(qubit, channel-name) pairs"""
    return a[0] == b[0] and (a[1] == b[1] or a[1] == "ALL" or b[1] == "ALL")


def read_schedule(circuit):
    """List once, then read every time. -> rows of plain data."""
    from qce_circuit.structure.circuit_operations import Barrier
    ops = circuit.operations
    rows = []
    for i, op in enumerate(ops):
        start = float(op.start_time)
        end = float(op.end_time)
        is_barrier = isinstance(op, Barrier)
        rows.append({
            "index": i,
            "cls": type(op).__name__,
            "channels": [(ci.id, ci.channel.name) for ci in op.channel_identifiers],
            "start": start,
            "end": end,
            "barrier": is_barrier,
            "barrier_qubits": list(op.qubit_indices) if is_barrier else [],
        })
    return rows


def find_overlaps(rows):
    """-> list of (kind, row_a, row_b)."""
    out = []
    by_qubit = {}
    for r in rows:
        for q in sorted({c[0] for c in r["channels"]}):
            by_qubit.setdefault(q, []).append(r)
    seen = set()
    # clause 1: non-zero operations sharing a channel
    for q in sorted(by_qubit, key=str):
        group = [r for r in by_qubit[q] if r["end"] - r["start"] > TOL]
        for a, b in itertools.combinations(group, 2):
            key = (a["index"], b["index"])
            if key in seen:
                continue
            if min(a["end"], b["end"]) - max(a["start"], b["start"]) <= TOL:
                continue
            if any(matches(x, y) for x in a["channels"] if x[0] == q for y in b["channels"] if y[0] == q):
                seen.add(key)
                out.append(("overlap-channel", a, b))
    # clause 2: nothing overlaps a barrier on one of the barrier's qubits
    for bar in rows:
        if not bar["barrier"]:
            continue
        zero = bar["end"] - bar["start"] <= TOL
        for q in bar["barrier_qubits"]:
            for r in by_qubit.get(q, []):
                if r is bar or r["end"] - r["start"] <= TOL:
                    continue
                key = (min(r["index"], bar["index"]), max(r["index"], bar["index"]))
                if key in seen:
                    continue
                if zero:
                    hit = r["start"] + TOL < bar["start"] < r["end"] - TOL
                else:
                    hit = min(r["end"], bar["end"]) - max(r["start"], bar["start"]) > TOL
                if hit:
                    seen.add(key)
                    out.append(("overlap-barrier", r, bar))
    return out


def _brief(r):
    return f"#{r['index']} {r['cls']}{[list(c) for c in r['channels']][:4]} [{r['start']}, {r['end']}]"


# ------------------------------------------------------------------------------------------------ library side
def build(case):
    from qce_circuit.connectivity.intrf_channel_identifier import QubitIDObj
    from qce_circuit.library.repetition_code.circuit_constructors import (
        construct_repetition_code_circuit,
        construct_repetition_code_circuit_simplified,
        construct_repetition_code_multi_round_circuit,
    )
    from qce_circuit.library.state_calibration.circuit_components import CalibrationDescription, CalibrateType
    from qce_circuit.library.state_calibration.circuit_constructors import construct_calibration_circuit
    ctor = case["ctor"]
    if ctor == "calibration":
        ids = [QubitIDObj(f"Q{k}") for k in range(len(case["indices"]))]
        description = CalibrationDescription(
            _qubit_ids=ids,
            _qubit_index_map={qid: idx for qid, idx in zip(ids, case["indices"])},
            _type=CalibrateType[case["cal_type"]],
        )
        return construct_calibration_circuit(description=description)
    container = rep.make_container(case)
    description = rep.make_description(case, container)
    kwargs = {} if container is None else {"initial_state": container}
    if ctor == "full":
        return construct_repetition_code_circuit(qec_cycles=case["cycles"], description=description, **kwargs)
    if ctor == "simplified":
        return construct_repetition_code_circuit_simplified(qec_cycles=case["cycles"], description=description, **kwargs)
    if ctor == "multi":
        return construct_repetition_code_multi_round_circuit(qec_cycles=list(case["rounds"]), description=description, **kwargs)
    raise ValueError(ctor)


def classes_of(case):
    r, m, f, s = case["durations"]
    out = [f"ctor={case['ctor']}",
           "durations=" + ("default" if list(case["durations"]) == DEFAULT else "other"),
           "readout" + ("<" if r < m else ("=" if r == m else ">")) + "microwave",
           "flux" + ("<" if f < m else ("=" if f == m else ">")) + "microwave"]
    if case["ctor"] == "calibration":
        out += [f"cal={case['cal_type']}", f"cal_qubits={len(case['indices'])}"]
    else:
        out += [f"desc={case['desc']}", f"refocus={case['refocus']}", f"d={case['d']}", f"six_states={bool(case.get('data_states'))}"]
        if case["ctor"] == "multi":
            out += [f"rounds_len={len(case['rounds'])}", f"rounds_has0={0 in case['rounds']}"]
        else:
            c = case["cycles"]
            out.append("cycles=" + (str(c) if c <= 4 else ("5-8" if c <= 8 else ">=9")))
    return out


def nontrivial(case):
    if list(case["durations"]) == DEFAULT:
        return False
    if case["ctor"] == "calibration":
        return True
    if case["ctor"] == "multi":
        return any(c >= 1 for c in case["rounds"])
    return case["cycles"] >= 1


def _body(case, ctx):
    from qce_circuit.structure.registry_duration import temporary_override_get_registry_at, GlobalRegistryKey
    ctx.case(case, nontrivial=nontrivial(case), classes=classes_of(case))
    r, m, f, s = case["durations"]
    setting = {GlobalRegistryKey.READOUT: r, GlobalRegistryKey.MICROWAVE: m, GlobalRegistryKey.FLUX: f, GlobalRegistryKey.RESET: s}
    for variant in ("built", "unrolled"):
        rows = None
        env.clear_time_caches()
        with temporary_override_get_registry_at(setting):
            with ctx.lib(f"construct/{variant}/read times"):
                circuit = build(case)
                if variant == "unrolled":
                    circuit = circuit.apply_modifiers()
                rows = read_schedule(circuit)
        if rows is None:
            continue
        if len(rows) > 40:
            ctx.note("circuit with > 40 operations")
        _report(case, ctx, variant, rows)
        # the same object, re-read after the setting is gone (ambient durations) - a different configuration of the same circuit
        rows2 = None
        with ctx.lib(f"{variant}/read times again outside the override"):
            rows2 = read_schedule(circuit)
        if rows2 is not None:
            _report(case, ctx, variant + "+reread_ambient", rows2)


def _report(case, ctx, variant, rows):
    if True:
        last_index = len(rows) - 1
        for kind, a, b in find_overlaps(rows):
            bar = b if b["barrier"] else (a if a["barrier"] else None)
            other = a if bar is b else b
            ctx.fail(kind, f"[{variant}] durations {case['durations']}: {_brief(a)} overlaps {_brief(b)}",
                     {"variant": variant, "a": a["cls"], "b": b["cls"],
                      "barrier_is_last_listed": bool(bar is not None and bar["index"] == last_index),
                      "barrier_covers_all_qubits": bool(bar is not None and set(bar["barrier_qubits"]) >= {c[0] for r_ in rows for c in r_["channels"]}),
                      "other_cls": other["cls"] if bar is not None else None})


# ------------------------------------------------------------------------------------------------ known-finding signature
@findings.predicate("c10_simplified_no_refocusing_final_barrier")
def _pred_simplified_final_barrier(case, facts):
    """construct_repetition_code_circuit_simplified without refocusing: nothing on the data read-out channels ties the
    final measurement (and hence the closing Barrier) to the QEC block, so the closing Barrier is scheduled while the
    block's gates / ancilla measurement still run."""
    return (case.get("ctor") == "simplified" and case.get("refocus") is False
            and facts.get("barrier_is_last_listed") is True
            and facts.get("other_cls") in ("Ry90", "Rym90", "CPhase", "VirtualPark", "DispersiveMeasure"))


# ------------------------------------------------------------------------------------------------ generators
def _durations(st):
    dy = st.sampled_from(DYADIC)
    free = st.tuples(dy, dy, dy, dy).map(list)
    # readout strictly shorter than microwave (decoupling wait clipped at 0)
    short_readout = st.tuples(st.sampled_from(DYADIC[:4]), st.sampled_from(DYADIC[4:]), dy, dy).map(list)
    return st.one_of(free, free, free, free, free, short_readout, short_readout, st.just(list(DEFAULT)))


def _cycles(st, max_cycles):
    # order chosen so that Hypothesis' preference for early elements lands on 2..5 cycles, not on 0
    return st.sampled_from([2, 3, 4, 5, 1, 6] + [c for c in range(7, max_cycles + 1)] + [0])


def _repcode_strategy(ctor, max_d, max_cycles):
    from hypothesis import strategies as st

    @st.composite
    def cases(draw):
        routes = ["chain", "initial_state", "connectivity", "connectivity"] + ([] if ctor == "multi" else ["none"])
        desc = draw(st.sampled_from(routes))
        case = {"ctor": ctor}
        if desc == "connectivity":
            layout = draw(st.sampled_from(sorted(rep.LAYOUT_CHAINS)))
            chain = rep.LAYOUT_CHAINS[layout]
            n_data = (len(chain) + 1) // 2
            d = draw(st.integers(2, min(max_d, n_data)))
            start = draw(st.integers(0, n_data - d))
            sub = chain[2 * start: 2 * start + 2 * d - 1]
            if draw(st.booleans()):
                sub = sub[::-1]
            case.update(layout=layout, qubits=sub)
        else:
            d = draw(st.integers(2, max_d))
        refocus = True if desc == "none" else draw(st.booleans())
        omit = desc in ("chain", "connectivity") and draw(st.integers(0, 7)) == 0
        data = None if omit else draw(st.lists(st.integers(0, 1), min_size=d, max_size=d))
        anc = None if (omit or draw(st.booleans())) else draw(st.lists(st.integers(0, 1), min_size=d - 1, max_size=d - 1))
        case.update(d=d, data=data, anc=anc, desc=desc, refocus=refocus)
        if data is not None and draw(st.integers(0, 2)) == 0:
            # superposition states: each brings its own preparation gate (kind and duration key) into the circuit
            six = st.sampled_from(["ZERO", "ONE", "PLUS", "MINUS", "PLUS_I", "MINUS_I"])
            case["data_states"] = draw(st.lists(six, min_size=d, max_size=d))
            if anc is not None:
                case["anc_states"] = draw(st.lists(six, min_size=d - 1, max_size=d - 1))
        if ctor == "multi":
            n_rounds = draw(st.sampled_from([1, 2, 2, 3, 3]))
            case["rounds"] = list(draw(st.permutations(list(range(0, max_cycles + 1)))))[:n_rounds]
        else:
            case["cycles"] = draw(_cycles(st, max_cycles))
        case["durations"] = draw(_durations(st))
        return case

    return cases()


def strat_composite():
    """Full constructor with a composite description: a layout sub-chain with excluded gates / qubits, which produces
    gate layers that hold parking but no two-qubit gate."""
    from hypothesis import strategies as st

    @st.composite
    def cases(draw):
        layout = draw(st.sampled_from(sorted(rep.LAYOUT_CHAINS)))
        chain = rep.LAYOUT_CHAINS[layout]
        n_data = (len(chain) + 1) // 2
        d = draw(st.integers(2, min(4, n_data)))
        start = draw(st.integers(0, n_data - d))
        sub = chain[2 * start: 2 * start + 2 * d - 1]
        edges = [[sub[i], sub[i + 1]] for i in range(len(sub) - 1)]
        n_ex = min(len(edges), draw(st.sampled_from([0, 1, 1, 2, 2, 3])))
        ex_edges = [edges[i] for i in sorted(draw(st.lists(st.integers(0, len(edges) - 1), min_size=n_ex, max_size=n_ex, unique=True)))]
        ex_qubits = [draw(st.sampled_from(sub[1::2]))] if draw(st.integers(0, 3)) == 0 else []
        ctor = draw(st.sampled_from(["full", "full", "simplified"]))
        if ctor == "simplified":
            # the simplified round needs at least one operation to attach its measurements to (it raises
            # NoReferenceOperationException on a description whose exclusions leave nothing to do): keep one gate
            ex_qubits = []
            ex_edges = ex_edges[:max(0, len(edges) - 1)]
        case = {"ctor": ctor, "desc": "composite",
                "exclude_rotation": [draw(st.sampled_from(sub))] if draw(st.integers(0, 4)) == 0 else [], "layout": layout, "qubits": sub, "exclude_edges": ex_edges,
                "exclude_qubits": ex_qubits, "only_required": draw(st.booleans()), "d": d,
                "data": draw(st.lists(st.integers(0, 1), min_size=d, max_size=d)), "anc": None,
                "refocus": draw(st.booleans()), "cycles": draw(st.sampled_from([1, 2, 3, 4])),
                "durations": draw(_durations(st))}
        return case
    return cases()


def strat_full():
    return _repcode_strategy("full", 5, 8)


def strat_full_large():
    return _repcode_strategy("full", 9, 16)


def strat_simplified():
    return _repcode_strategy("simplified", 5, 8)


def strat_multi():
    return _repcode_strategy("multi", 4, 5)


def strat_calibration():
    from hypothesis import strategies as st
    return st.fixed_dictionaries({
        "ctor": st.just("calibration"),
        "cal_type": st.sampled_from(["QUBIT", "QUTRIT"]),
        "indices": st.lists(st.integers(0, 9), min_size=1, max_size=6, unique=True),
        "durations": _durations(st),
    })


def items_grid(tier):
    values = [0.5, 1.0, 2.0, 3.0]
    for r, m, f, s in itertools.product(values, repeat=4):
        yield {"ctor": "full", "d": 2, "data": [0, 1], "anc": None, "cycles": 3, "desc": "chain", "refocus": True,
               "durations": [r, m, f, s]}


def body(case, ctx):
    # the library installs a "once" filter for its OperationNotFoundWarning at import time (in front of the harness'
    # "ignore"); unsilenced, a thorough shard writes > 64 kB to stderr and blocks on the parent's pipe
    import warnings
    with warnings.catch_warnings():
        warnings.simplefilter("ignore")
        _body(case, ctx)


def items_cycle_sweep(tier):
    """Every cycle count across the constructor's 2/3/4-cycle structure switches, both constructors, refocusing on/off."""
    settings = [[2.0, 1.0, 1.0, 2.0], [0.5, 2.0, 1.0, 1.0], [3.0, 0.5, 1.5, 0.25]]
    if tier == "thorough":
        settings += [[1.0, 1.0, 4.0, 3.0], [4.0, 3.0, 0.25, 0.5]]
    for ctor in ("full", "simplified"):
        for cycles in range(0, 9 if tier == "thorough" else 7):
            for refocus in (True, False):
                for durations in settings:
                    yield {"ctor": ctor, "d": 3, "data": [0, 1, 1], "anc": None, "cycles": cycles, "desc": "chain",
                           "refocus": refocus, "durations": durations}


def items_layout_subchains(tier):
    """Every contiguous data-to-data window of the three shipped layouts (either direction in the thorough tier): which gates
    share a layer, and which qubits must park meanwhile, differs from window to window."""
    for layout in sorted(rep.LAYOUT_CHAINS):
        chain = rep.LAYOUT_CHAINS[layout]
        n_data = (len(chain) + 1) // 2
        for d in range(2, n_data + 1):
            for start in range(0, n_data - d + 1):
                sub = chain[2 * start: 2 * start + 2 * d - 1]
                for qubits in ([sub] if tier == "quick" else [sub, sub[::-1]]):
                    for ctor in (["simplified"] if (tier == "quick" and d <= 3) else ["simplified", "full"]):
                        yield {"ctor": ctor, "desc": "connectivity", "layout": layout, "qubits": list(qubits), "d": d,
                               "data": [i % 2 for i in range(d)], "anc": None, "refocus": True, "cycles": 2,
                               "durations": [2.0, 1.0, 1.0, 2.0] if (start + d) % 2 else [1.0, 0.5, 2.0, 1.5]}


def parts():
    return [
        Part("duration_grid", body, items=items_grid, exhaustive=True),
        Part("cycle_sweep", body, items=items_cycle_sweep, exhaustive=True),
        Part("layout_subchains", body, items=items_layout_subchains, exhaustive=True),
        Part("repcode_full", body, strategy=strat_full, quick=70, thorough=450),
        Part("repcode_full_large", body, strategy=strat_full_large, quick=0, thorough=60),
        Part("repcode_simplified", body, strategy=strat_simplified, quick=50, thorough=600),
        Part("repcode_composite", body, strategy=strat_composite, quick=110, thorough=500),
        Part("multi_round", body, strategy=strat_multi, quick=20, thorough=100),
        Part("calibration", body, strategy=strat_calibration, quick=120, thorough=800),
    ]
