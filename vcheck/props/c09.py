"""C09 - repetition-code circuits run the protocol: exact measurement record, deterministic detectors.

Oracle = a classical bit-level simulation of the protocol written here (no library code involved):
heralding zeros, data prepared as requested, ancillas prepared as requested, per QEC cycle every ancilla
accumulates the parity of its two neighbouring data bits (ancillas are never reset), refocusing flips every
data bit in every cycle but the last, final data read-out; a 0-cycle circuit reads every ancilla once.
The exported Stim circuit is sampled without noise and every shot must equal that record.
"""
from __future__ import annotations

import itertools

from .. import findings
from ..harness import Part

PROPERTY_ID = "C09"
RULE = ("Inputs of construct_repetition_code_circuit as plain data: distance d, data bits, ancilla bits (or none), QEC "
        "cycles, description route {none = default from the initial state, from_chain(2d-1), from_initial_state, "
        "from_connectivity(contiguous data-to-data sub-chain of Repetition9Code / Repetition9Round6Code / "
        "Repetition5Round4Code, either direction)} and refocusing on/off. small_all_states enumerates, for cycles 0..5, "
        "d=2 x all 4 data states x {no ancilla state given, ancilla 0, 1} x routes {none, from_chain without refocusing, "
        "from_initial_state without refocusing} and d=3 x all 8 data states x all 4 ancilla states x route none "
        "(thorough: d=2..4 x all data states x {none given + all ancilla states} x cycles 0..6 x 5 route/refocusing "
        "combinations) "
        "completely; subchains enumerates the contiguous sub-chains of the three shipped layouts (quick: forward, d<=4; "
        "thorough: all 82 x both directions) with derived states/cycles; sampled / sampled_large draw d<=6 / d<=9, "
        "cycles <=8 / <=16 with Hypothesis; partial_states gives fewer states than qubits to an explicit description. "
        "Every case is checked as built, after apply_modifiers() on a second freshly built circuit, after flatten() of "
        "that unrolled circuit (the order the library itself uses) and, when no repetition count exceeds 1 (cycles<=2), "
        "after flatten() alone on a third fresh circuit. "
        "Non-trivial = cycles>=2 or a requested ancilla state is 1 or the description is a Surface-17 sub-chain; "
        "distinct = distinct canonical JSON of the case.")
ASSUMPTIONS = [
    "stim's noiseless sampler (compile_sampler / compile_detector_sampler / detector_error_model) is the executor of the exported circuit",
    "record positions are attributed to qubits by walking the M instructions of stim_circuit.flattened() in order (targets = circuit channel indices)",
    "chain position p (even = data p/2, odd = ancilla (p-1)/2) is the circuit channel index: true for from_chain and for from_connectivity with the default index map, which is what is generated",
    "the chains of the three shipped layouts are transcribed here from their parity groups (D1 X1 D2 X2 D3 Z2 D6 Z4 D5 Z1 D4 Z3 D7 X3 D8 X4 D9; D3 Z2 D6 Z4 D5 Z1 D4 X3 D7); only sub-chains that start and end on a data qubit are in the domain (the constructor needs both neighbours of every ancilla)",
    "'after flattening' means flatten() of a circuit whose repetition counts are all 1 (after apply_modifiers(), or cycles<=2): flatten() of a circuit that still carries a count >1 lists the block once and is C11/C06 territory",
    "for computational-basis inputs every measurement is deterministic, so 'detectors deterministic' cannot tell a wrong detector offset from a right one as long as it stays inside the record; the record comparison is the strong part of this check",
    "partial_states: states missing from the container mean |0> (the qubit is only reset and heralded); built with InitialStateContainer.from_ordered_list on shorter lists, explicit description",
]

LAYOUT_CHAINS = {
    "Repetition9Code": "D1 X1 D2 X2 D3 Z2 D6 Z4 D5 Z1 D4 Z3 D7 X3 D8 X4 D9".split(),
    "Repetition9Round6Code": "D1 X1 D2 X2 D3 Z2 D6 Z4 D5 Z1 D4 Z3 D7 X3 D8 X4 D9".split(),
    "Repetition5Round4Code": "D3 Z2 D6 Z4 D5 Z1 D4 X3 D7".split(),
}
SHOTS = 4


# ------------------------------------------------------------------------------------------------ model
def protocol_record(d, data_bits, anc_bits, cycles, refocus):
    """Expected measurement values per chain position, in order of occurrence. Pure bit arithmetic."""
    rec = {p: [0] for p in range(2 * d - 1)}          # heralding measurement of every qubit gives 0
    data = list(data_bits)
    anc = list(anc_bits)
    if cycles == 0:
        for j in range(d - 1):
            rec[2 * j + 1].append(anc[j])
    for k in range(1, cycles + 1):
        for j in range(d - 1):
            anc[j] ^= data[j] ^ data[j + 1]
            rec[2 * j + 1].append(anc[j])
        if refocus and k < cycles:
            data = [b ^ 1 for b in data]
    for i in range(d):
        rec[2 * i].append(data[i])
    return rec


def _full(bits, n):
    bits = list(bits or [])
    return bits + [0] * (n - len(bits))


def expected_for(case, anc_override=None):
    d = case["d"]
    data = _full(case["data"], d)
    anc = _full(case["anc"], d - 1) if anc_override is None else anc_override
    return protocol_record(d, data, anc, case["cycles"], case["refocus"])


# ------------------------------------------------------------------------------------------------ library side
def make_container(case):
    """InitialStateContainer for the case, or None when no state at all is given (constructor default is used)."""
    from qce_circuit.language import InitialStateContainer, InitialStateEnum
    enum = {0: InitialStateEnum.ZERO, 1: InitialStateEnum.ONE}
    if case["data"] is None and case["anc"] is None:
        return None
    if case.get("data_states"):
        # (C10 only) any of the six preparable states by name; the bit lists then only fix the sizes
        return InitialStateContainer.from_ordered_list(
            [InitialStateEnum[n] for n in case["data_states"]],
            None if not case.get("anc_states") else [InitialStateEnum[n] for n in case["anc_states"]],
        )
    return InitialStateContainer.from_ordered_list(
        [enum[b] for b in (case["data"] or [])],
        None if case["anc"] is None else [enum[b] for b in case["anc"]],
    )


def make_description(case, container):
    from qce_circuit.connectivity.intrf_channel_identifier import QubitIDObj
    from qce_circuit.library.repetition_code.circuit_components import RepetitionCodeDescription
    from qce_circuit.library.repetition_code import repetition_code_connectivity as layouts
    kind = case["desc"]
    if kind == "none":
        return None
    if kind == "chain":
        return RepetitionCodeDescription.from_chain(length=2 * case["d"] - 1, qubit_refocusing=case["refocus"])
    if kind == "initial_state":
        return RepetitionCodeDescription.from_initial_state(initial_state=container, qubit_refocusing=case["refocus"])
    if kind == "connectivity":
        return RepetitionCodeDescription.from_connectivity(
            involved_qubit_ids=[QubitIDObj(n) for n in case["qubits"]],
            connectivity=getattr(layouts, case["layout"])(),
            qubit_refocusing=case["refocus"],
        )
    if kind == "composite":
        # a derived description wrapped in a composite one with gate / qubit exclusions (parking-only layers etc.)
        from qce_circuit.library.repetition_code.circuit_components import CompositeRepetitionCodeDescription
        from qce_circuit.connectivity.intrf_channel_identifier import EdgeIDObj
        layout = getattr(layouts, case["layout"])()
        involved = [QubitIDObj(n) for n in case["qubits"]]
        base = RepetitionCodeDescription.from_connectivity(involved_qubit_ids=involved, connectivity=layout,
                                                           qubit_refocusing=case["refocus"])
        return CompositeRepetitionCodeDescription(
            _base_description=base,
            _qubit_index_map={q: i for i, q in enumerate(involved)},
            _connectivity=layout,
            _exclude_gate_edge_ids=[EdgeIDObj.from_qubit_ids(a, b) for a, b in case.get("exclude_edges", [])],
            _exclude_gate_qubit_ids=[QubitIDObj(n) for n in case.get("exclude_qubits", [])],
            _exclude_readout_qubit_ids=[QubitIDObj(n) for n in case.get("exclude_readout", [])],
            _exclude_rotation_qubit_ids=[QubitIDObj(n) for n in case.get("exclude_rotation", [])],
            _only_required_parking_operations=case.get("only_required", False),
        )
    raise ValueError(kind)


def build(case):
    from qce_circuit.library.repetition_code.circuit_constructors import construct_repetition_code_circuit
    container = make_container(case)
    kwargs = {} if container is None else {"initial_state": container}
    return construct_repetition_code_circuit(qec_cycles=case["cycles"], description=make_description(case, container), **kwargs)


def observed_records(stim_circuit):
    """-> (list over shots of {qubit: [bits...]}, number of M targets)"""
    qubits = []
    other_measurements = []
    for ins in stim_circuit.flattened():
        if ins.name in ("M", "MZ"):
            for t in ins.targets_copy():
                qubits.append(t.value if not t.is_inverted_result_target else ("!", t.value))
        elif ins.name.startswith("M") and ins.name not in ("MPAD",):
            other_measurements.append(ins.name)
    samples = stim_circuit.compile_sampler().sample(shots=SHOTS)
    out = []
    for row in samples:
        rec = {}
        for q, b in zip(qubits, row):
            rec.setdefault(q, []).append(int(b))
        out.append(rec)
    return out, len(qubits), other_measurements


def _diff(expected, observed):
    lines = []
    for q in sorted(set(expected) | set(observed), key=str):
        e, o = expected.get(q), observed.get(q)
        if e != o:
            lines.append(f"qubit {q}: expected {e} got {o}")
    return "; ".join(lines)


def check_variant(case, ctx, name, stim_circuit):
    import stim  # noqa: F401
    d, cycles = case["d"], case["cycles"]
    expected = expected_for(case)
    shots, n_targets, other = observed_records(stim_circuit)
    if other:
        ctx.fail("foreign-measurement", f"[{name}] measurement instructions other than M: {sorted(set(other))}")
    if n_targets != stim_circuit.num_measurements:
        ctx.fail("record-length", f"[{name}] {n_targets} M targets but num_measurements={stim_circuit.num_measurements}")
    for k, rec in enumerate(shots):
        if rec != expected:
            ctx.fail("record", f"[{name}] shot {k}: {_diff(expected, rec)}",
                     {"variant": name, "observed": {str(q): v for q, v in rec.items()},
                      "expected": {str(q): v for q, v in expected.items()}})
            break
    # detectors / observable
    n_det, n_obs = stim_circuit.num_detectors, stim_circuit.num_observables
    if n_det != (d - 1) * (cycles + 1):
        ctx.fail("detector-count", f"[{name}] num_detectors={n_det}, expected {(d - 1) * (cycles + 1)}")
    if n_obs != 1:
        ctx.fail("observable-count", f"[{name}] num_observables={n_obs}, expected 1")
    try:
        stim_circuit.detector_error_model()
        dem_error = None
    except ValueError as exc:
        dem_error = str(exc)
    if dem_error is not None:
        ctx.fail("detectors-nondeterministic", f"[{name}] detector_error_model(): {dem_error[:400]}")
    else:
        det, obs = stim_circuit.compile_detector_sampler().sample(shots=SHOTS, separate_observables=True)
        if det.any():
            ctx.fail("detector-fired", f"[{name}] noiseless detector sample not all False: {det.astype(int).tolist()}")
        if obs.any():
            ctx.fail("observable-flipped", f"[{name}] noiseless observable sample not all False")


def classes_of(case):
    anc = case["anc"]
    cyc = case["cycles"]
    out = [
        f"d={case['d']}" if case["d"] <= 6 else "d>=7",
        "cycles=" + (str(cyc) if cyc <= 4 else ("5-8" if cyc <= 8 else ">=9")),
        f"desc={case['desc']}",
        f"refocus={case['refocus']}",
        "anc=" + ("none" if anc is None else ("nonzero" if any(anc) else "zero")),
        "data=" + ("omitted" if case["data"] is None else ("nonzero" if any(case["data"]) else "zero")),
    ]
    if case["desc"] == "connectivity":
        out.append(f"layout={case['layout']}")
    return out


def nontrivial(case):
    return case["cycles"] >= 2 or bool(case["anc"] and any(case["anc"])) or case["desc"] == "connectivity"


def _body(case, ctx):
    from qce_circuit.addon_stim import to_stim
    ctx.case(case, nontrivial=nontrivial(case), classes=classes_of(case))
    # fresh circuit per chain of in-place modifications: built | unrolled -> flattened (the order the library itself
    # uses in the multi-round constructor) | flattened alone (only when no repetition count exceeds 1)
    chains = [["built"], ["unrolled", "unrolled+flattened"]]
    if case["cycles"] <= 2:
        chains.append(["flattened"])
    texts = {}
    for chain in chains:
        circuit = None
        for name in chain:
            stim_circuit = None
            with ctx.lib(f"construct/{name}/to_stim"):
                if circuit is None:
                    circuit = build(case)
                if name == "unrolled":
                    circuit = circuit.apply_modifiers()
                if name in ("unrolled+flattened", "flattened"):
                    circuit = circuit.flatten()
                stim_circuit = to_stim(circuit)
            if stim_circuit is None:
                break
            check_variant(case, ctx, name, stim_circuit)
            texts[name] = str(stim_circuit.flattened())
    if len(set(texts.values())) > 1:
        ctx.note("flattened stim text differs between variants (not claimed by C09; C08/C11)")


# ------------------------------------------------------------------------------------------------ known-finding signatures
def _observed_equals(case, facts, anc_effective):
    obs = facts.get("observed")
    if not isinstance(obs, dict):
        return False
    exp = {str(q): v for q, v in expected_for(case, anc_override=anc_effective).items()}
    return obs == exp


@findings.predicate("c09_ancilla_prepared_from_data_state")
def _pred_ancilla_from_data(case, facts):
    """RepetitionCodeDescription.get_operations prepares ancilla j with the DATA state of index j."""
    if not case.get("anc"):
        return False
    d = case["d"]
    data_given = list(case["data"] or [])
    effective = [(data_given[j] if j < len(data_given) else 0) if j < len(case["anc"]) else 0 for j in range(d - 1)]
    if effective == _full(case["anc"], d - 1):
        return False          # the defect is invisible for this input; some other cause
    return _observed_equals(case, facts, effective)


@findings.predicate("c09_ancilla_state_ignored_without_data_state")
def _pred_ancilla_wrong_dict(case, facts):
    """InitialStateContainer.get_ancilla_qubit_operation looks the index up in the DATA dict."""
    if not case.get("anc"):
        return False
    d = case["d"]
    n_data = len(case["data"] or [])
    effective = [(case["anc"][j] if j < n_data else 0) if j < len(case["anc"]) else 0 for j in range(d - 1)]
    if effective == _full(case["anc"], d - 1):
        return False
    return _observed_equals(case, facts, effective)


# ------------------------------------------------------------------------------------------------ generators
def _bits(n):
    return [list(t) for t in itertools.product((0, 1), repeat=n)]


def items_small(tier):
    thorough = tier == "thorough"
    for d in ((2, 3, 4) if thorough else (2, 3)):
        if thorough or d == 2:
            routes = [("none", True), ("chain", False), ("initial_state", False), ("chain", True), ("initial_state", True)][: 5 if thorough else 3]
        else:
            routes = [("none", True)]
        anc_states = ([None] if thorough or d == 2 else []) + _bits(d - 1)
        for cycles in range(0, 7 if thorough else 6):
            for desc, refocus in routes:
                for data in _bits(d):
                    for anc in anc_states:
                        yield {"d": d, "data": data, "anc": anc, "cycles": cycles, "desc": desc, "refocus": refocus}


def subchains(max_d=9, both_directions=True):
    for layout, chain in LAYOUT_CHAINS.items():
        n_data = (len(chain) + 1) // 2
        for d in range(2, min(max_d, n_data) + 1):
            for start in range(0, n_data - d + 1):
                sub = chain[2 * start: 2 * start + 2 * d - 1]
                yield layout, d, sub
                if both_directions:
                    yield layout, d, sub[::-1]


def items_subchains(tier):
    thorough = tier == "thorough"
    cycle_sets = (0, 1, 2, 3, 4, 5) if thorough else None
    for i, (layout, d, sub) in enumerate(subchains(9 if thorough else 4, both_directions=thorough)):
        data = [(i >> k) & 1 for k in range(d)] if i % 3 else [((k + i) % 2) for k in range(d)]
        anc = None if i % 2 else [0] * (d - 1)
        for cycles in (cycle_sets or ((i % 5) + (1 if i % 7 == 0 else 0),)):
            yield {"d": d, "data": data, "anc": anc, "cycles": cycles, "desc": "connectivity", "layout": layout,
                   "qubits": sub, "refocus": bool((i + cycles) % 3)}


def _strategy(max_d, max_cycles):
    from hypothesis import strategies as st

    @st.composite
    def cases(draw):
        desc = draw(st.sampled_from(["none", "chain", "initial_state", "connectivity", "connectivity"]))
        case = {}
        if desc == "connectivity":
            layout = draw(st.sampled_from(sorted(LAYOUT_CHAINS)))
            chain = LAYOUT_CHAINS[layout]
            n_data = (len(chain) + 1) // 2
            d = draw(st.integers(2, min(max_d, n_data)))
            start = draw(st.integers(0, n_data - d))
            sub = chain[2 * start: 2 * start + 2 * d - 1]
            if draw(st.booleans()):
                sub = sub[::-1]
            case.update(layout=layout, qubits=sub)
        else:
            d = draw(st.integers(2, max_d))
        cycles = draw(st.sampled_from(list(range(0, max_cycles + 1)) + [1, 2, 3, 4, 5, 6]))
        refocus = True if desc == "none" else draw(st.booleans())
        omit = desc in ("chain", "connectivity") and draw(st.integers(0, 7)) == 0
        data = None if omit else draw(st.lists(st.integers(0, 1), min_size=d, max_size=d))
        anc_kind = 0 if omit else draw(st.integers(0, 3))
        anc = None if anc_kind == 0 else draw(st.lists(st.integers(0, 1), min_size=d - 1, max_size=d - 1))
        case.update(d=d, data=data, anc=anc, cycles=cycles, desc=desc, refocus=refocus)
        return case

    return cases()


def strat_sampled():
    return _strategy(6, 8)


def strat_sampled_large():
    return _strategy(9, 16)


def strat_partial():
    from hypothesis import strategies as st

    @st.composite
    def cases(draw):
        desc = draw(st.sampled_from(["chain", "connectivity"]))
        case = {}
        if desc == "connectivity":
            layout = draw(st.sampled_from(sorted(LAYOUT_CHAINS)))
            chain = LAYOUT_CHAINS[layout]
            n_data = (len(chain) + 1) // 2
            d = draw(st.integers(2, min(4, n_data)))
            start = draw(st.integers(0, n_data - d))
            case.update(layout=layout, qubits=chain[2 * start: 2 * start + 2 * d - 1])
        else:
            d = draw(st.integers(2, 4))
        n_data_states = draw(st.integers(0, d))
        n_anc_states = draw(st.integers(0, d - 1))
        data = draw(st.lists(st.integers(0, 1), min_size=n_data_states, max_size=n_data_states))
        anc = draw(st.lists(st.integers(0, 1), min_size=n_anc_states, max_size=n_anc_states))
        case.update(d=d, data=data, anc=anc, cycles=draw(st.integers(0, 4)), desc=desc, refocus=draw(st.booleans()))
        return case

    return cases()


def body_partial(case, ctx):
    # same oracle; classes additionally record how much of the state was given
    body(case, _Relabel(ctx, [f"data_given={len(case['data'])}/{case['d']}",
                              f"anc_given_beyond_data={len(case['anc']) > len(case['data'])}"]))


class _Relabel:
    """Adds class labels to the single ctx.case call of `body`."""

    def __init__(self, ctx, extra):
        self._ctx, self._extra = ctx, extra

    def case(self, case, nontrivial, classes=()):
        self._ctx.case(case, nontrivial=nontrivial, classes=list(classes) + self._extra)

    def __getattr__(self, item):
        return getattr(self._ctx, item)


def body(case, ctx):
    # the library installs a "once" filter for its OperationNotFoundWarning at import time (in front of the harness'
    # "ignore"); unsilenced, a thorough shard writes > 64 kB to stderr and blocks on the parent's pipe
    import warnings
    with warnings.catch_warnings():
        warnings.simplefilter("ignore")
        _body(case, ctx)


def parts():
    return [
        Part("small_all_states", body, items=items_small, exhaustive=True),
        Part("subchains", body, items=items_subchains),
        Part("sampled", body, strategy=strat_sampled, quick=45, thorough=250),
        Part("sampled_large", body, strategy=strat_sampled_large, quick=0, thorough=120),
        Part("partial_states", body_partial, strategy=strat_partial, quick=25, thorough=150),
    ]
