"""C14 - noise dressing only adds noise, with the configured strengths.

Observation point: `apply_noise(circuit, qubit_index_map, noise_settings=...)`, parsed instruction by instruction.
The oracle never calls library code: the T1/T2 formula, the per-qubit lookup, the block split and the block
duration are re-evaluated here from the plain-data case.
"""
from __future__ import annotations

import functools
import math
from typing import Any, Dict, List, Optional, Tuple

from .. import findings
from ..harness import Part

PROPERTY_ID = "C14"
RULE = ("generated: Hypothesis-built Stim circuits as plain instruction lists over the gate names the exporter emits "
        "(R H I X Y SQRT_X SQRT_X_DAG SQRT_Y SQRT_Y_DAG CZ M TICK DETECTOR(rec) OBSERVABLE_INCLUDE SHIFT_COORDS and "
        "REPEAT n>=2 blocks nested <= 2) on 1-6 qubit indices (contiguous or sparse), 0-14 top-level items; library: "
        "to_stim(construct_repetition_code_circuit) for distance 2-4, 0-4 cycles, computational initial states; "
        "single_gate_blocks: enumeration of every exporter gate name alone in a TICK-delimited block. All three are "
        "crossed with noise settings (default and per-identifier T1/T2 from 1e-9..1 s incl. T2 > 2*T1 and T2 << T1, "
        "assignment errors in [0,1], the four operation durations >= 0 incl. 0; built through the constructor or through "
        "NoiseSettings.from_dict, never through a file) and index->identifier maps (none, empty, partial, full, "
        "permuted, non-injective, with foreign indices / identifiers without own entry). Non-trivial = at least two "
        "TICK-delimited blocks, at least one block holding a measurement, and at least one circuit qubit whose mapped "
        "identifier has its own noise entry; distinct = distinct canonical JSON of the case.")
ASSUMPTIONS = [
    "stim is trusted: Circuit.flattened() defines 'the flattened input' (REPEAT unrolled, SHIFT_COORDS folded into "
    "detector coordinates), gate_data() tells noise channels from gates, targets/arguments are read through "
    "targets_copy()/gate_args_copy()",
    "T1/T2 formula = Pauli-twirled amplitude+phase damping: px = py = (1-exp(-t/T1))/4, pz = (1-exp(-t/T2))/2 - "
    "(1-exp(-t/T1))/4 (evaluated with expm1). For T2 > 2*T1 this pz is negative (no physical channel); the oracle then "
    "expects pz = 0, the only reading compatible with 'every inserted probability within [0,1]'",
    "operation durations: the settings configure exactly four durations (measure, CZ, H, X); an instruction of any "
    "other name (R, I, Y, SQRT_*, annotations, TICK) contributes duration 0 to its block",
    "'each qubit' = every qubit index that occurs as a gate target in the flattened input; around each block every such "
    "qubit gets one channel before the block's first instruction and one after its last (the TICK), each evaluated at "
    "half the block duration; order inside a run of channels is not constrained",
    "tolerance on idle probabilities: 1e-9 relative to (1-exp(-t/T2))/2 + (1-exp(-t/T1))/4 plus 1e-15 absolute "
    "(cancellation in 1-exp(-x) for x < 1e-7); measurement arguments are compared exactly",
    "an instruction the exporter cannot emit (noise channels or measurements with arguments in the input, MR/MX, "
    "Pauli targets) is outside the domain and never generated",
]

ONE_QUBIT = ["R", "H", "I", "X", "Y", "SQRT_X", "SQRT_X_DAG", "SQRT_Y", "SQRT_Y_DAG"]
NAMES = ["D1", "D2", "D3", "X1", "Z1", "Z2", "Q7"]
IDLE = "PAULI_CHANNEL_1"
REL_TOL = 1e-9
ABS_TOL = 1e-15


# ------------------------------------------------------------------------------------------------ circuit as data
def circuit_text(items, indent: int = 0) -> str:
    pad = " " * indent
    lines: List[str] = []
    for it in items:
        k = it[0]
        if k == "G":
            lines.append(pad + it[1] + " " + " ".join(str(q) for q in it[2]))
        elif k == "TICK":
            lines.append(pad + "TICK")
        elif k == "DET":
            args = ", ".join(repr(float(a)) for a in it[2])
            recs = " ".join(f"rec[-{b}]" for b in it[1])
            lines.append(pad + (f"DETECTOR({args})" if it[2] else "DETECTOR") + (" " + recs if recs else ""))
        elif k == "OBS":
            recs = " ".join(f"rec[-{b}]" for b in it[1])
            lines.append(pad + f"OBSERVABLE_INCLUDE({int(it[2])})" + (" " + recs if recs else ""))
        elif k == "SHIFT":
            lines.append(pad + "SHIFT_COORDS(" + ", ".join(repr(float(a)) for a in it[1]) + ")")
        elif k == "REP":
            lines.append(pad + f"REPEAT {int(it[1])} {{")
            lines.append(circuit_text(it[2], indent + 4))
            lines.append(pad + "}")
        else:
            raise ValueError(f"unknown item {it!r}")
    return "\n".join(lines)


def _has_repeat(items, depth=0) -> int:
    best = 0
    for it in items:
        if it[0] == "REP":
            best = max(best, 1 + _has_repeat(it[2]))
    return best


# ------------------------------------------------------------------------------------------------ oracle
def tokens_of(flat) -> List[Tuple]:
    """Split a flattened stim circuit into one token per gate application.

    token = (name, args tuple, targets tuple); one-qubit gates one target per token, two-qubit gates one pair per
    token, annotations whole. Targets: int qubit index or ('rec', k)."""
    import stim
    out: List[Tuple] = []
    for ins in flat:
        name = ins.name
        args = tuple(ins.gate_args_copy())
        tg = []
        for t in ins.targets_copy():
            if t.is_measurement_record_target:
                tg.append(("rec", t.value))
            elif t.is_qubit_target:
                tg.append(t.value)
            else:
                tg.append(("other", str(t)))
        gd = stim.gate_data(name)
        if gd.is_two_qubit_gate:
            for i in range(0, len(tg), 2):
                out.append((name, args, tuple(tg[i:i + 2])))
        elif gd.is_single_qubit_gate:
            for t in tg:
                out.append((name, args, (t,)))
        else:
            out.append((name, args, tuple(tg)))
    return out


def is_noise_name(name: str) -> bool:
    import stim
    gd = stim.gate_data(name)
    return bool(gd.is_noisy_gate and not gd.produces_measurements)


def twirl(t: float, t1: float, t2: float) -> Tuple[Tuple[float, float, float], float]:
    """Pauli-twirled amplitude + phase damping after time t. Returns ((px,py,pz), scale for the tolerance)."""
    a1 = -math.expm1(-t / t1)        # 1 - exp(-t/T1): decay probability
    a2 = -math.expm1(-t / t2)        # 1 - exp(-t/T2): loss of coherence
    px = a1 / 4.0
    pz = a2 / 2.0 - a1 / 4.0
    if pz < 0.0:                     # T2 > 2*T1: formula leaves the physical range; nearest valid value
        pz = 0.0
    return (px, px, pz), a2 / 2.0 + a1 / 4.0


def params_for(q: int, settings: Dict[str, Any], qmap: Optional[List[List[Any]]]) -> List[float]:
    name = None
    for idx, nm in (qmap or []):
        if idx == q:
            name = nm            # later pair wins, as in dict construction
    if name is not None and name in settings["individual"]:
        return settings["individual"][name]
    return settings["default"]


def duration_table(settings: Dict[str, Any], count_measure: bool = True) -> Dict[str, float]:
    mz, cz, h, x = settings["durations"]
    return {"M": float(mz) if count_measure else 0.0, "CZ": float(cz), "H": float(h), "X": float(x)}


def blocks_of(tokens: List[Tuple]) -> List[Tuple[int, int]]:
    """[start, end) token ranges of TICK-delimited blocks; the TICK closes its block; last block may be empty."""
    out, s = [], 0
    for i, tk in enumerate(tokens):
        if tk[0] == "TICK":
            out.append((s, i + 1))
            s = i + 1
    out.append((s, len(tokens)))
    return out


def expected_gaps(tokens, qubits, settings, qmap, count_measure=True):
    """gap index -> qubit -> list of (triple, scale). Gap i = position before non-noise token i (N = after the last)."""
    table = duration_table(settings, count_measure)
    gaps: Dict[int, Dict[int, List]] = {}
    for s, e in blocks_of(tokens):
        dur = max([table.get(tokens[i][0], 0.0) for i in range(s, e)], default=0.0)
        for q in qubits:
            t1, t2, _ = params_for(q, settings, qmap)
            ch = twirl(0.5 * dur, float(t1), float(t2))
            gaps.setdefault(s, {}).setdefault(q, []).append(ch)
            gaps.setdefault(e, {}).setdefault(q, []).append(ch)
    return gaps


def _close(got, exp, scale) -> bool:
    tol = REL_TOL * scale + ABS_TOL
    return all(abs(g - x) <= tol for g, x in zip(got, exp))


def compare_gaps(observed, expected) -> List[str]:
    """Mismatch descriptions (empty = equal as multisets per gap and qubit, within tolerance)."""
    bad: List[str] = []
    for gap in sorted(set(observed) | set(expected)):
        obs_q, exp_q = observed.get(gap, {}), expected.get(gap, {})
        for q in sorted(set(obs_q) | set(exp_q)):
            obs = list(obs_q.get(q, []))
            exp = list(exp_q.get(q, []))
            unmatched = []
            for trip, scale in exp:
                hit = next((i for i, o in enumerate(obs) if _close(o, trip, scale)), None)
                if hit is None:
                    unmatched.append(trip)
                else:
                    obs.pop(hit)
            if unmatched or obs:
                bad.append(f"gap {gap} qubit {q}: expected-but-absent {unmatched}, present-but-unexpected {obs}")
    return bad


def build_settings(spec: Dict[str, Any]):
    from qce_circuit.addon_stim.noise_settings_manager import (
        NoiseSettings, QubitNoiseModelParameters, OperationDurationParameters)
    from qce_circuit.connectivity.intrf_channel_identifier import QubitIDObj
    d1, d2, dae = spec["default"]
    mz, cz, h, x = spec["durations"]
    if spec.get("via") == "from_dict":
        return NoiseSettings.from_dict({
            "default_t1": d1, "default_t2": d2, "default_assignment_error": dae,
            "default_single_qubit_gate_error": 0.0,
            "individual_noise": {n: {"t1": v[0], "t2": v[1], "assignment_error": v[2], "single_qubit_gate_error": 0.0}
                                 for n, v in sorted(spec["individual"].items())},
            "operation_durations": {"duration_mz": mz, "duration_cz": cz, "duration_h": h, "duration_x": x},
        })
    return NoiseSettings(
        default_t1=d1, default_t2=d2, default_assignment_error=dae,
        individual_noise={QubitIDObj(n): QubitNoiseModelParameters(t1=v[0], t2=v[1], assignment_error=v[2])
                          for n, v in sorted(spec["individual"].items())},
        operation_durations=OperationDurationParameters(duration_mz=mz, duration_cz=cz, duration_h=h, duration_x=x),
    )


def build_map(qmap):
    from qce_circuit.connectivity.intrf_channel_identifier import QubitIDObj
    if qmap is None:
        return None
    return {int(i): QubitIDObj(n) for i, n in qmap}


def check(case, ctx, circuit, extra_classes: List[str]):
    """Shared body: classify, dress, run the four oracle clauses."""
    settings, qmap = case["settings"], case["map"]
    flat = circuit.flattened()
    tin = tokens_of(flat)
    qubits = sorted({t for tk in tin for t in tk[2] if isinstance(t, int)})
    blocks = blocks_of(tin)
    table = duration_table(settings)
    meas_blocks = [(s, e) for s, e in blocks if any(tin[i][0] == "M" for i in range(s, e))]
    # blocks whose longest configured operation is the measurement (where 'measurements included' matters)
    meas_longest = sum(1 for s, e in meas_blocks
                       if table["M"] > max([table.get(tin[i][0], 0.0) for i in range(s, e) if tin[i][0] != "M"],
                                           default=0.0))
    used = [params_for(q, settings, qmap) for q in qubits]
    override = any(p is not settings["default"] for p in used)
    nontrivial = len(blocks) >= 2 and bool(meas_blocks) and override
    map_kind = case.get("map_kind", "none" if qmap is None else "?")
    classes = list(extra_classes) + [
        f"map={map_kind}", f"via={settings.get('via', 'ctor')}",
        f"blocks={'1' if len(blocks) == 1 else '2-4' if len(blocks) <= 4 else '5+'}",
        f"measure_block={bool(meas_blocks)}", f"measure_is_longest={meas_longest > 0}",
        f"override_effective={override}",
        f"t2>2t1={any(p[1] > 2 * p[0] for p in used)}", f"t2<<t1={any(p[1] < 0.01 * p[0] for p in used)}",
        f"empty_block={any(e - s <= 1 for s, e in blocks[:-1]) or blocks[-1][0] == blocks[-1][1]}",
        f"all_durations_zero={not any(table.values())}",
        f"sparse_indices={bool(qubits) and qubits != list(range(len(qubits)))}",
        f"fused_measure={any(ins.name == 'M' and len(ins.targets_copy()) > 1 for ins in flat)}",
    ]
    ctx.case(case, nontrivial=nontrivial, classes=classes)

    from qce_circuit.addon_stim.noise_factory_manager import apply_noise
    noisy = None
    with ctx.lib("apply_noise"):
        ns = build_settings(settings)
        noisy = apply_noise(circuit, build_map(qmap), noise_settings=ns)
    if noisy is None:
        return

    # ---- parse the output: non-noise tokens, and noise channels by gap
    tout = tokens_of(noisy)       # REPEAT blocks would show up as a token named REPEAT -> round-trip fails
    stripped: List[Tuple] = []
    observed: Dict[int, Dict[int, List]] = {}
    meas_args: List[Tuple[int, Tuple]] = []     # (position in stripped, args)
    for name, args, tg in tout:
        if is_noise_name(name):
            # (2) every inserted probability
            if any(not (0.0 <= a <= 1.0) for a in args) or sum(args) > 1.0 + 1e-12:
                ctx.fail("probability-range", f"{name}{args} on {tg}: probabilities outside [0,1] or sum > 1")
            if name == IDLE and len(tg) == 1 and isinstance(tg[0], int):
                observed.setdefault(len(stripped), {}).setdefault(tg[0], []).append(args)
            continue
        if name == "M":
            meas_args.append((len(stripped), args))
            stripped.append((name, (), tg))
        else:
            stripped.append((name, args, tg))

    # ---- (1) round-trip
    if stripped != tin:
        first = next((i for i, (a, b) in enumerate(zip(stripped, tin)) if a != b), min(len(stripped), len(tin)))
        ctx.fail("round-trip",
                 f"noise-stripped output differs from flattened input at token {first}: "
                 f"got {stripped[first:first + 3]} expected {tin[first:first + 3]} "
                 f"(lengths {len(stripped)} vs {len(tin)})")
        return      # positions are meaningless below

    # ---- (2)+(3) measurement arguments
    for pos, args in meas_args:
        q = tin[pos][2][0]
        exp = float(params_for(q, settings, qmap)[2])
        if len(args) != 1 or not (0.0 <= args[0] <= 1.0):
            ctx.fail("probability-range", f"measurement of qubit {q} carries arguments {args}")
        elif args[0] != exp:
            ctx.fail("assignment-error",
                     f"measurement of qubit {q} (token {pos}) carries {args[0]!r}, configured {exp!r} "
                     f"(map {qmap}, individual {sorted(settings['individual'])})",
                     {"qubit": q})

    # ---- (4) idle channels around every block
    bad = compare_gaps(observed, expected_gaps(tin, qubits, settings, qmap))
    if bad:
        # would the output be exactly right if measurements counted as zero-length operations?
        alt = compare_gaps(observed, expected_gaps(tin, qubits, settings, qmap, count_measure=False))
        facts = {"matches_if_measure_duration_ignored": not alt, "blocks_with_longest_measure": meas_longest,
                 "mismatching_gaps": len(bad)}
        ctx.fail("idle-channel",
                 f"{len(bad)} idle-channel mismatch(es); first: {bad[0]}; durations {table}; "
                 f"blocks {blocks}; output matches the formula with measurement duration ignored: {not alt}",
                 facts)


@findings.predicate("c14_measure_duration_ignored")
def _pred_measure_ignored(case, facts) -> bool:
    """S8: the whole output equals the oracle evaluated with measurements contributing duration 0, and the case
    has a block in which the measurement is the longest configured operation."""
    return facts.get("matches_if_measure_duration_ignored") is True and facts.get("blocks_with_longest_measure", 0) > 0


# ------------------------------------------------------------------------------------------------ strategies
T_SPECIAL = [1e-9, 1e-7, 1e-6, 5e-6, 10e-6, 20e-6, 40e-6, 1e-4, 1e-3, 1.0]
RATIO_SPECIAL = [1e-4, 0.005, 0.1, 0.5, 1.0, 1.5, 2.0, 2.000001, 2.5, 3.0, 10.0, 100.0]
DUR_SPECIAL = [20e-9, 0.0, 40e-9, 60e-9, 100e-9, 500e-9, 1e-6, 2e-6]
AE_SPECIAL = [0.01, 0.0, 1.0, 0.5, 0.02, 0.25]
MAP_KINDS = ["full", "permuted", "partial", "full", "permuted", "partial", "full", "permuted", "noninjective",
             "foreign", "none", "empty"]
ITEM_KINDS = ["G1", "M", "TICK", "G1", "M", "TICK", "G1", "TICK", "CZ", "CZ", "DET", "OBS", "SHIFT", "REP"]


def _permutation(seq: List[Any], code: int) -> List[Any]:
    """Decode an integer (Lehmer code) into a permutation of seq: plain data in, deterministic order out."""
    pool, out = list(seq), []
    while pool:
        code, r = divmod(code, len(pool))
        out.append(pool.pop(r))
    return out


@functools.lru_cache(maxsize=None)
def _S():
    """All elementary strategies, built once (building strategies per draw dominated the run time)."""
    from hypothesis import strategies as st
    t1 = st.sampled_from(T_SPECIAL) | st.floats(-9.0, 0.0).map(lambda e: 10.0 ** e)
    ratio = st.sampled_from(RATIO_SPECIAL) | st.floats(-4.0, 2.0).map(lambda e: 10.0 ** e)
    ae = st.sampled_from(AE_SPECIAL) | st.floats(0.0, 1.0)
    qparams = st.tuples(t1, ratio, ae).map(lambda t: [t[0], min(max(t[0] * t[1], 1e-10), 10.0), t[2]])
    dur = st.sampled_from(DUR_SPECIAL) | st.floats(0.0, 5e-6)
    settings = st.fixed_dictionaries({
        "default": qparams,
        "individual": st.one_of(st.just({}), *[st.dictionaries(st.sampled_from(NAMES), qparams, min_size=k, max_size=5)
                                               for k in (1, 1, 2, 2, 3)]),
        "durations": st.lists(dur, min_size=4, max_size=4),
        "via": st.sampled_from(["ctor", "ctor", "from_dict"]),
    })
    return {
        "settings": settings,
        "map_kind": st.sampled_from(MAP_KINDS),
        "item_kind": st.sampled_from(ITEM_KINDS),
        "gate1": st.sampled_from(["H", "X"] + ONE_QUBIT),
        "perm7": st.integers(0, math.factorial(len(NAMES)) - 1),
        "mask": {n: st.integers(1, 2 ** n - 1) for n in range(1, 8)},
        "below": {n: st.integers(0, n - 1) for n in range(1, 14)},
        "bool": st.booleans(),
        "n_items": st.integers(0, 14),
        "n_body": st.integers(1, 5),
        "reps": st.integers(2, 4),
        "n_qubits": st.integers(1, 6),
        "sparse": st.integers(0, 2 ** 13 - 1),
        "name": st.sampled_from(NAMES),
        "small": st.integers(0, 2),
    }


def _draw_subset(draw, S, seq: List[int]) -> List[int]:
    mask = draw(S["mask"][len(seq)])
    out = [q for i, q in enumerate(seq) if mask >> i & 1]
    return out[::-1] if len(out) > 1 and draw(S["bool"]) else out


def _draw_map(draw, S, qubits: List[int], individual_names: List[str]):
    """index->identifier map as list of [index, name] pairs (or None) and its kind label."""
    kind = draw(S["map_kind"])
    if kind == "none":
        return None, kind
    if kind == "empty" or not qubits:
        return [], "empty"
    # names: prefer those with own entries so that the lookup matters, but keep some without
    pool = sorted(individual_names) + [n for n in NAMES if n not in individual_names]
    if kind == "noninjective":
        nm = pool[draw(S["below"][max(2, len(individual_names))])]
        other = draw(S["name"])
        return [[q, nm if i % 2 == 0 else other] for i, q in enumerate(qubits)], kind
    if kind in ("permuted", "foreign"):
        # permute the names that carry own entries among themselves first, so that a permuted map still hits entries
        head = pool[:max(len(qubits), len(individual_names))]
        names = _permutation(head, draw(S["perm7"]) % math.factorial(len(head)))[:len(qubits)]
    else:
        names = pool[:len(qubits)]
    pairs = [[q, n] for q, n in zip(qubits, names)]
    if kind == "partial":
        keep = draw(S["mask"][len(pairs)])
        pairs = [p for i, p in enumerate(pairs) if keep >> i & 1]
    if kind == "foreign":
        # indices that do not occur in the circuit, carrying names that collide with used ones
        free = [i for i in range(13) if i not in qubits]
        extra = sorted({free[draw(S["below"][len(free)])] for _ in range(2)})
        pairs = pairs[: max(1, len(pairs) - 1)] + [[i, draw(S["name"])] for i in extra]
    return pairs, kind


def _draw_items(draw, S, qubits: List[int], nmeas: int, depth: int, n_items: int):
    """Instruction list over the exporter's vocabulary. Returns (items, measurements recorded by one pass)."""
    nq = len(qubits)
    items: List[Any] = []
    count = 0
    for _ in range(n_items):
        k = draw(S["item_kind"])
        if k == "CZ" and nq < 2:
            k = "G1"
        if k == "REP" and depth >= 2:
            k = "TICK"
        if k in ("DET", "OBS") and nmeas + count == 0:
            k = "M"
        if k == "G1":
            items.append(["G", draw(S["gate1"]), _draw_subset(draw, S, qubits)])
        elif k == "M":
            tg = _draw_subset(draw, S, qubits)
            items.append(["G", "M", tg])
            count += len(tg)
        elif k == "CZ":
            tg: List[int] = []
            for _p in range(1 + (draw(S["small"]) == 2)):
                a = draw(S["below"][nq])
                b = draw(S["below"][nq - 1])
                tg += [qubits[a], qubits[b if b < a else b + 1]]
            items.append(["G", "CZ", tg])
        elif k == "TICK":
            items.append(["TICK"])
        elif k in ("DET", "OBS"):
            avail = min(nmeas + count, 12)
            look = sorted({1 + draw(S["below"][avail]) for _l in range(draw(S["small"]) + (k == "OBS"))})
            if k == "DET":
                items.append(["DET", look, [qubits[draw(S["below"][nq])], 0]])
            else:
                items.append(["OBS", look or [1], draw(S["small"]) % 2])
        elif k == "SHIFT":
            items.append(["SHIFT", [0, draw(S["small"])]])
        elif k == "REP":
            reps = draw(S["reps"])
            body, c = _draw_items(draw, S, qubits, nmeas + count, depth + 1, draw(S["n_body"]))
            items.append(["REP", reps, body])
            count += reps * c
    return items, count


def strat_generated():
    from hypothesis import strategies as st
    S = _S()

    @st.composite
    def case(draw):
        n = draw(S["n_qubits"])
        qubits = list(range(n))
        if draw(S["small"]) == 2:          # sparse / shifted indices
            mask = draw(S["sparse"])
            picked = [i for i in range(13) if mask >> i & 1][:n]
            if len(picked) == n:
                qubits = picked
        items, _ = _draw_items(draw, S, qubits, 0, 0, draw(S["n_items"]))
        settings = draw(S["settings"])
        qmap, kind = _draw_map(draw, S, qubits, sorted(settings["individual"]))
        return {"circuit": items, "settings": settings, "map": qmap, "map_kind": kind}

    return case()


def body_generated(case, ctx):
    import stim
    circuit = stim.Circuit(circuit_text(case["circuit"]))      # our own construction, not library code
    depth = _has_repeat(case["circuit"])
    check(case, ctx, circuit, [f"repeat_depth={depth}"])


# ---- library exports
@functools.lru_cache(maxsize=None)
def _library_text(d: int, cycles: int, init: Tuple[int, ...]) -> str:
    from qce_circuit.addon_stim import to_stim
    from qce_circuit.library.repetition_code.circuit_constructors import construct_repetition_code_circuit
    from qce_circuit.language.intrf_declarative_circuit import InitialStateEnum
    from qce_circuit import InitialStateContainer
    states = [InitialStateEnum.ONE if b else InitialStateEnum.ZERO for b in init]
    circ = construct_repetition_code_circuit(
        qec_cycles=cycles, initial_state=InitialStateContainer.from_ordered_list(states))
    return str(to_stim(circ))


def strat_library():
    from hypothesis import strategies as st
    S = _S()
    dist, cyc = st.integers(2, 4), st.integers(0, 4)

    @st.composite
    def case(draw):
        d = draw(dist)
        cycles = draw(cyc)
        bits = draw(S["mask"][d]) - 1 if draw(S["bool"]) else 0
        init = [bits >> i & 1 for i in range(d)]
        settings = draw(S["settings"])
        qmap, kind = _draw_map(draw, S, list(range(2 * d - 1)), sorted(settings["individual"]))
        return {"d": d, "cycles": cycles, "init": init, "settings": settings, "map": qmap, "map_kind": kind}

    return case()


def body_library(case, ctx):
    import stim
    text = None
    try:
        text = _library_text(int(case["d"]), int(case["cycles"]), tuple(int(b) for b in case["init"]))
    except Exception as exc:          # the export itself is C08/C09 territory; not a C14 observation
        ctx.case(case, nontrivial=False, classes=["library_export_failed"])
        ctx.note(f"library export raised {type(exc).__name__}")
        return
    circuit = stim.Circuit(text)
    check(case, ctx, circuit, [f"library_d={case['d']}", f"library_cycles={case['cycles']}"])


# ---- every exporter name alone in a block, under fixed, pairwise different durations
_FIXED_SETTINGS = [
    {"default": [10e-6, 15e-6, 0.01], "individual": {"D1": [5e-6, 20e-6, 0.3], "X1": [30e-6, 7e-6, 0.0]},
     "durations": [500e-9, 60e-9, 20e-9, 30e-9], "via": "ctor"},
    {"default": [1e-6, 1e-6, 0.5], "individual": {"D1": [2e-6, 1e-9, 1.0]},
     "durations": [10e-9, 60e-9, 200e-9, 0.0], "via": "from_dict"},
]
_FIXED_MAPS = [(None, "none"), ([], "empty"), ([[0, "D1"]], "partial"), ([[0, "X1"], [1, "D1"]], "permuted")]


def items_single_gate_blocks(tier):
    singles = [[["G", n, [0]]] for n in ONE_QUBIT + ["M"]] + [
        [["G", "CZ", [0, 1]]],
        [["G", "M", [0]], ["DET", [1], [0, 0]]],
        [["G", "M", [1]], ["OBS", [1], 0]],
        [["SHIFT", [0, 1]]],
        [],
    ]
    for si, settings in enumerate(_FIXED_SETTINGS):
        for qmap, kind in _FIXED_MAPS:
            for block in singles:
                # R 0 1 first so that both qubits exist; the block under test sits between two TICKs
                circuit = [["G", "R", [0, 1]], ["TICK"]] + block + [["TICK"], ["G", "H", [1]]]
                yield {"circuit": circuit, "settings": settings, "map": qmap, "map_kind": kind}


def parts():
    return [
        Part("single_gate_blocks", body_generated, items=items_single_gate_blocks),
        Part("generated", body_generated, strategy=strat_generated, quick=1500, thorough=5000),
        Part("library", body_library, strategy=strat_library, quick=150, thorough=600),
    ]
