"""C16 - simultaneous two-qubit gates are accepted iff they cannot collide in frequency; parking rule; generator."""
from __future__ import annotations

import itertools
from typing import Dict, List, Tuple

from ..harness import Part
from .. import device as D

PROPERTY_ID = "C16"
RULE = ("subsets: every non-empty subset of <= 3 (quick) / <= 4 (thorough) of the 24 Surface-17 edges, in canonical "
        "order (2324 / 12950 cases, exhaustive); each is given to GateSequenceGenerator.get_mutually_allowed and, when "
        "qubit-disjoint, every idle qubit (17 - 2k of them) is asked for get_requires_parking. large_subsets: "
        "Hypothesis-generated sets of 5-8 distinct edges in generated order and edge orientation, built as (a) uniform "
        "subsets, (b) ancilla->data matchings (qubit-disjoint by construction), (c) one of the 719 oracle-accepted 5-/6-"
        "sets, (d) an oracle-accepted 4-6 set plus 1-2 foreign edges (just across the accept/reject boundary). "
        "generator: lists of 2-8 distinct edges x subgroup size (shapes n/s with at most 35 partitions; a few shapes where s "
        "does not divide n), plus fixed larger requests in generator_big (8/2 = the library test's chain, 9/3; thorough "
        "also 10/5, 8/2, 8/4; at most 280 partitions, well inside the default combination limit of 20000), given to "
        "construct_allowed_gate_sequences(...).construct_operation_sequences(). caller_owned_results: 1-4 generated steps in which "
        "a caller obtains a list from Surface17Layer (get_neighbors / get_edges / get_parity_group of a qubit, qubit_ids, "
        "data_qubit_ids, ancilla_qubit_ids) and modifies that list (extends it with another qubit's, clears, reverses, pops, "
        "repeats its first element); afterwards all 24 single gates (acceptance + parking of every idle qubit) and up to 28 pairs of gates around "
        "the touched qubits are judged as in subsets. Non-trivial = at least two gates "
        "(subsets) / at least two steps of at least two gates each (generator); distinct = distinct canonical JSON of "
        "the case (edge order and orientation included).")
ASSUMPTIONS = [
    "oracle = vcheck/device.py: own transcription of the Surface-17 graph (from the plaquette geometry) and idle levels "
    "(D4 D5 D6 high, other data low, ancillas mid); compared with Surface17Layer's public qubit/edge listing once "
    "per process - a difference is reported as a violation (part device_table: acceptance is stated for the Surface-17 layout, a layer that lists other edges is another device) and the other parts are skipped",
    "accept <=> gates pairwise qubit-disjoint and no two neighbouring qubits of different gates share an operating level "
    "(operating level of a gate = idle level of its lower-frequency member); idle qubits never block acceptance "
    "because they can be parked",
    "parking(q) <=> q idle, q neighbours the higher-frequency member of an active gate, level(q) = that gate's operating "
    "level; only checked on qubit-disjoint gate sets and only for idle qubits",
    "generator: only what the statement claims is demanded (each requested gate exactly once per emitted sequence, "
    "every step accepted, required parking of emitted steps follows the parking rule); the number of emitted "
    "sequences vs the number of oracle-valid partitions is recorded as a note, not demanded",
    "requested gates are distinct edges; duplicates in the request are outside the domain",
    "caller_owned_results: a list computed and returned by an accessor belongs to the caller (the pinned code builds a new list on "
    "every such call); only list results are modified, accessors returning anything else are skipped; accessors that hand out the "
    "layout's own containers in the pinned code (edge_ids, parity_group_x/z, get_connected_qubits) are not touched",
]


def _lib():
    from qce_circuit.connectivity.connectivity_surface_code import Surface17Layer, get_requires_parking
    from qce_circuit.connectivity.mapping.gate_sequence_generator import GateSequenceGenerator
    from qce_circuit.connectivity.intrf_connectivity_gate_sequence import Operation
    from qce_circuit.connectivity.intrf_channel_identifier import EdgeIDObj, QubitIDObj
    return Surface17Layer, get_requires_parking, GateSequenceGenerator, Operation, EdgeIDObj, QubitIDObj


def _edge_obj(g):
    _, _, _, _, EdgeIDObj, QubitIDObj = _lib()
    return EdgeIDObj(QubitIDObj(g[0]), QubitIDObj(g[1]))


def _edge_names(edge_id) -> Tuple[str, str]:
    a, b = edge_id.qubit_ids
    return D.edge(a.id, b.id)


# ---------------------------------------------------------------------------------------------------
# the layout itself: 17 qubits and the 24 edges of the plaquette geometry (every verdict below refers to this device)
# ---------------------------------------------------------------------------------------------------
def items_device_table(tier):
    yield {"layout": "Surface17Layer"}


def body_device_table(case, ctx):
    ctx.case(case, nontrivial=True, classes=["device_table"])
    msg = None
    with ctx.lib("Surface17Layer listing"):
        msg = D.table_mismatch()
    if msg:
        ctx.fail("device-table", msg)


# ---------------------------------------------------------------------------------------------------
# acceptance + parking on one gate set
# ---------------------------------------------------------------------------------------------------
def body_subset(case, ctx):
    if D.table_mismatch():
        ctx.case(case, nontrivial=False, classes=["skipped:device-table-mismatch"])     # reported by part device_table
        return
    Surface17Layer, get_requires_parking, GateSequenceGenerator, Operation, EdgeIDObj, QubitIDObj = _lib()
    gates = [tuple(g) for g in case["gates"]]
    disjoint = D.qubit_disjoint(gates)
    exp = D.accepted(gates)
    idle = [q for q in D.QUBITS if not any(q in g for g in gates)]
    exp_park = sorted(q for q in idle if D.requires_parking(q, gates)) if disjoint else None
    kind = "accepted" if exp else ("collision" if disjoint else "shared-qubit")
    classes = [f"k={len(gates)}", f"verdict={kind}", f"k={len(gates)}:{kind}"]
    if disjoint:
        classes.append(f"parked={min(len(exp_park), 6)}")
    ctx.case(case, nontrivial=len(gates) >= 2, classes=classes)
    check_subset(ctx, gates)


def check_subset(ctx, gates):
    Surface17Layer, get_requires_parking, GateSequenceGenerator, Operation, EdgeIDObj, QubitIDObj = _lib()
    disjoint = D.qubit_disjoint(gates)
    exp = D.accepted(gates)
    idle = [q for q in D.QUBITS if not any(q in g for g in gates)]
    exp_park = sorted(q for q in idle if D.requires_parking(q, gates)) if disjoint else None
    layer = Surface17Layer()
    got = None
    with ctx.lib("GateSequenceGenerator.get_mutually_allowed"):
        ops = [Operation.type_gate(_edge_obj(g)) for g in gates]
        got = bool(GateSequenceGenerator.get_mutually_allowed(ops, layer))
    if got is not None and got is not exp:
        ctx.fail("acceptance", f"gates {gates}: library says accepted={got}, frequency-collision rule says {exp} "
                               f"(qubit-disjoint={disjoint}, colliding neighbours={D.collisions(gates) if disjoint else 'n/a'})",
                 {"gates": gates, "got": got, "expected": exp, "disjoint": disjoint})
    if not disjoint:
        return
    got_park = None
    with ctx.lib("get_requires_parking"):
        edge_ids = [_edge_obj(g) for g in gates]
        got_park = sorted(q for q in idle if bool(get_requires_parking(QubitIDObj(q), edge_ids, layer)))
    if got_park is not None and got_park != exp_park:
        ctx.fail("parking", f"gates {gates}: library requires parking of {got_park}, rule gives {exp_park}",
                 {"gates": gates, "got": got_park, "expected": exp_park})


# ---------------------------------------------------------------------------------------------------
# the verdicts are a function of the gate set alone - also after a caller worked with lists the layout handed out
# ---------------------------------------------------------------------------------------------------
TOUCH_APIS = ["get_neighbors", "get_edges", "get_parity_group", "qubit_ids", "data_qubit_ids", "ancilla_qubit_ids"]
TOUCH_HOW = ["extend_other", "clear", "reverse", "pop", "duplicate"]


def strat_touch():
    from hypothesis import strategies as st
    touch = st.fixed_dictionaries({"api": st.sampled_from(TOUCH_APIS), "q": st.sampled_from(D.QUBITS),
                                   "other": st.sampled_from(D.QUBITS), "how": st.sampled_from(TOUCH_HOW)})
    return st.fixed_dictionaries({"touch": st.lists(touch, min_size=1, max_size=4)})


def body_touch(case, ctx):
    if D.table_mismatch():
        ctx.case(case, nontrivial=False, classes=["skipped:device-table-mismatch"])     # reported by part device_table
        return
    Surface17Layer, get_requires_parking, GateSequenceGenerator, Operation, EdgeIDObj, QubitIDObj = _lib()
    layer = Surface17Layer()
    ctx.case(case, nontrivial=any(t["api"] in ("get_neighbors", "get_edges") for t in case["touch"]),
             classes=[f"api={t['api']}" for t in case["touch"]] + [f"how={t['how']}" for t in case["touch"]])

    def call(api, q):
        if api.startswith("get_"):
            return getattr(layer, api)(QubitIDObj(q))
        return getattr(layer, api)

    for t in case["touch"]:
        with ctx.lib(f"Surface17Layer.{t['api']}"):
            mine = call(t["api"], t["q"])
            if not isinstance(mine, list):
                continue               # nothing a caller could modify
            # the caller's own book-keeping on the list it received
            if t["how"] == "extend_other":
                mine += list(call(t["api"], t["other"]))[:4]      # (bounded: a shared list must not grow geometrically)
            elif t["how"] == "clear":
                mine.clear()
            elif t["how"] == "reverse":
                mine.reverse()
            elif t["how"] == "pop" and mine:
                mine.pop()
            elif t["how"] == "duplicate" and mine:
                mine.append(mine[0])           # (one element, so that a shared list cannot grow geometrically over the cases)
    # every single gate (acceptance, parking of all idle qubits) and every pair of gates sharing a plaquette or a qubit
    for e in D.EDGES:
        check_subset(ctx, [e])
    touched = {t["q"] for t in case["touch"]} | {t["other"] for t in case["touch"]}
    near = [e for e in D.EDGES if set(e) & touched or any(n in touched for q in e for n in D.NEIGHBOURS[q])]
    for a, b in itertools.combinations(near[:8], 2):
        check_subset(ctx, [a, b])


def items_subsets(tier):
    kmax = 3 if tier == "quick" else 4
    for k in range(1, kmax + 1):
        for sub in itertools.combinations(D.EDGES, k):
            yield {"gates": [list(e) for e in sub]}


_ACCEPTED: Dict[int, List[Tuple[Tuple[str, str], ...]]] = {}


def accepted_sets() -> Dict[int, List[Tuple[Tuple[str, str], ...]]]:
    """All oracle-accepted gate sets by size (used only to bias generation, never as a verdict)."""
    if not _ACCEPTED:
        cur: List[Tuple[Tuple[str, str], ...]] = [()]
        k = 0
        while cur:
            nxt = []
            for s in cur:
                start = D.EDGES.index(s[-1]) + 1 if s else 0
                for e in D.EDGES[start:]:
                    t = s + (e,)
                    if D.accepted(t):
                        nxt.append(t)
            k += 1
            if nxt:
                _ACCEPTED[k] = nxt
            cur = nxt
    return _ACCEPTED


def strat_large():
    from hypothesis import strategies as st
    acc = accepted_sets()
    any_edge = st.sampled_from(D.EDGES)
    uniform = st.lists(any_edge, min_size=5, max_size=8, unique=True)

    @st.composite
    def matching(draw):
        k = draw(st.integers(5, 8))
        ancillas = list(draw(st.permutations(D.ANCILLAS)))[:k]
        used, gates = set(), []
        for a in ancillas:
            avail = [d for d in D.PLAQUETTES[a] if d not in used]
            if not avail:
                continue
            d = draw(st.sampled_from(avail))
            used.add(d)
            gates.append(D.edge(a, d))
        rest = [e for e in D.EDGES if e not in gates]
        while len(gates) < 5:
            e = draw(st.sampled_from(rest))
            rest.remove(e)
            gates.append(e)
        return gates

    big = acc.get(5, []) + acc.get(6, [])
    accepted_big = st.sampled_from(big).map(list)

    @st.composite
    def near_boundary(draw):
        base = list(draw(st.sampled_from(acc[4] + acc[5] + acc.get(6, []))))
        rest = [e for e in D.EDGES if e not in base]
        extra = draw(st.integers(1, 2))
        for _ in range(extra):
            e = draw(st.sampled_from(rest))
            rest.remove(e)
            base.append(e)
        return base

    @st.composite
    def presented(draw):
        gates = draw(st.one_of(uniform, matching(), accepted_big, near_boundary()))
        gates = list(draw(st.permutations(gates)))
        flips = draw(st.lists(st.booleans(), min_size=len(gates), max_size=len(gates)))
        return {"gates": [[g[1], g[0]] if f else [g[0], g[1]] for g, f in zip(gates, flips)]}

    return presented()


# ---------------------------------------------------------------------------------------------------
# the sequence generator
# ---------------------------------------------------------------------------------------------------
# (number of edges, subgroup size); weights by repetition.  At most 35 partitions (8/4) here; the expensive shapes
# 8/2 (105 partitions), 9/3 (280) and 10/5 (126) are fixed cases of the part `generator_big`.
SHAPES = ([(2, 1), (2, 2), (3, 1), (3, 3), (4, 1), (4, 4), (5, 5), (6, 6)]
          + [(4, 2)] * 6 + [(6, 2)] * 7 + [(6, 3)] * 7 + [(8, 4)] * 5
          + [(3, 2), (5, 2), (7, 3)])


def _pick_shape(ticket: int) -> Tuple[int, int]:
    # Hypothesis draws small / boundary integers far more often than others; hashing the drawn ticket spreads the
    # cases over SHAPES with the intended weights (the choice is still a pure function of the generated value)
    import hashlib
    h = int(hashlib.blake2b(str(ticket).encode(), digest_size=4).hexdigest(), 16)
    return SHAPES[h % len(SHAPES)]


def strat_generator():
    from hypothesis import strategies as st
    acc = accepted_sets()

    @st.composite
    def request(draw):
        n, s = _pick_shape(draw(st.integers(0, 2 ** 24)))
        if n % s == 0 and s in acc and draw(st.booleans()):
            # concatenate oracle-accepted blocks -> at least one sequence can be emitted
            edges: List[Tuple[str, str]] = []
            for _ in range(n // s):
                pool = [b for b in acc[s] if not any(e in edges for e in b)]
                if not pool:
                    break
                edges.extend(draw(st.sampled_from(pool)))
            rest = [e for e in D.EDGES if e not in edges]
            while len(edges) < n:
                edges.append(rest.pop(draw(st.integers(0, len(rest) - 1))))
        else:
            edges = draw(st.lists(st.sampled_from(D.EDGES), min_size=n, max_size=n, unique=True))
        edges = list(draw(st.permutations(edges)))
        flips = draw(st.lists(st.booleans(), min_size=n, max_size=n))
        return {"edges": [[e[1], e[0]] if f else [e[0], e[1]] for e, f in zip(edges, flips)], "size": s}

    return request()


def body_generator(case, ctx):
    if D.table_mismatch():
        ctx.case(case, nontrivial=False, classes=["skipped:device-table-mismatch"])     # reported by part device_table
        return
    Surface17Layer, get_requires_parking, GateSequenceGenerator, Operation, EdgeIDObj, QubitIDObj = _lib()
    requested = [D.edge(*e) for e in case["edges"]]
    n, s = len(requested), case["size"]
    predicted = D.valid_partitions(n, s, lambda block: D.accepted([requested[i] for i in block]))
    bucket = "0" if predicted == 0 else ("1-9" if predicted < 10 else "10+")
    ctx.case(case, nontrivial=(s >= 2 and n >= 2 * s and n % s == 0),
             classes=[f"shape={n}/{s}", f"divisible={n % s == 0}", f"predicted_sequences={bucket}"])

    layer = Surface17Layer()
    sequences = None
    with ctx.lib("GateSequenceGenerator.construct_allowed_gate_sequences"):
        generator = GateSequenceGenerator(included_edge_ids=[_edge_obj(e) for e in case["edges"]], connectivity=layer)
        identifier = generator.construct_allowed_gate_sequences(subgroup_size=s)
        sequences = list(identifier.construct_operation_sequences())
    if sequences is None:
        return
    if len(sequences) != predicted:
        ctx.note(f"generator emitted a different number of sequences than there are rule-valid partitions")
    want = sorted(requested)
    for index, sequence in enumerate(sequences):
        steps = None
        with ctx.lib("OperationSequence.operations"):
            steps = [[_edge_names(op.identifier) for op in step] for step in sequence.operations]
        if steps is None:
            continue
        used = sorted(e for step in steps for e in step)
        if used != want:
            missing = sorted(set(want) - set(used))
            twice = sorted({e for e in used if used.count(e) > 1})
            foreign = sorted(set(used) - set(want))
            ctx.fail("generator-coverage", f"request {requested} size {s}: sequence #{index} {steps} does not use every "
                                           f"requested gate exactly once (missing {missing}, repeated {twice}, not requested {foreign})",
                     {"steps": steps, "missing": missing, "repeated": twice, "foreign": foreign})
        for step in steps:
            if not D.accepted(step):
                ctx.fail("generator-step", f"request {requested} size {s}: sequence #{index} contains step {step} which the "
                                           f"frequency-collision rule rejects (disjoint={D.qubit_disjoint(step)}, "
                                           f"collisions={D.collisions(step) if D.qubit_disjoint(step) else 'n/a'})",
                         {"step": step, "steps": steps})
        if index < 3:
            parks = None
            with ctx.lib("OperationSequence.get_required_parkings"):
                parks = [sorted(op.identifier.id for op in step) for step in sequence.get_required_parkings(layer)]
            if parks is None:
                continue
            for step, got in zip(steps, parks):
                if D.qubit_disjoint(step) and got != sorted(D.required_parking(step)):
                    ctx.fail("generator-parking", f"step {step}: required parking reported {got}, rule gives "
                                                  f"{sorted(D.required_parking(step))}", {"step": step, "got": got})
            if len(parks) != len(steps):
                ctx.fail("generator-parking", f"{len(parks)} parking lists for {len(steps)} steps", {"steps": steps})


def items_generator_big(tier):
    # the chain of the library's own test (8 edges, pairs -> 105 partitions)
    chain = ["D5", "Z1", "D1", "X1", "D2", "X2", "D3", "Z2", "D6"]
    yield {"edges": [[a, b] for a, b in zip(chain, chain[1:])], "size": 2}
    # three layers of three simultaneous gates each (9 edges, triples -> 280 partitions)
    yield {"edges": [["X1", "D1"], ["Z2", "D6"], ["Z1", "D5"], ["X1", "D2"], ["Z2", "D3"], ["Z1", "D4"],
                     ["X4", "D8"], ["Z3", "D7"], ["Z4", "D6"]], "size": 3}
    if tier != "quick":
        acc = accepted_sets()
        first = acc[5][0]
        second = next(b for b in acc[5] if not any(e in first for e in b))
        yield {"edges": [list(e) for e in first + second], "size": 5}
        chain = ["D9", "X4", "D8", "X3", "D7", "Z3", "D4", "Z1", "D5"]
        yield {"edges": [[b, a] for a, b in zip(chain, chain[1:])], "size": 2}
        yield {"edges": [[a, b] for a, b in zip(chain, chain[1:])], "size": 4}


def parts():
    return [
        Part("device_table", body_device_table, items=items_device_table, exhaustive=True),
        Part("subsets", body_subset, items=items_subsets, exhaustive=True),
        Part("large_subsets", body_subset, strategy=strat_large, quick=500, thorough=3000),
        Part("caller_owned_results", body_touch, strategy=strat_touch, quick=30, thorough=300),
        Part("generator", body_generator, strategy=strat_generator, quick=45, thorough=200),
        Part("generator_big", body_generator, items=items_generator_big),
    ]
