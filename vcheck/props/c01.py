"""C01 - relation-based timing: every operation sits where its relation says."""
from __future__ import annotations

from .. import model as M
from .. import observe as O
from .. import programs as P
from ..harness import Part
from ..signatures import close

PROPERTY_ID = "C01"
RULE = ("Hypothesis build programs (<= 8 items per circuit, nesting <= 2; part deep_nesting: <= 3 items per circuit, nesting <= 5; 4 qubits, <= 60 unrolled operations) over all "
        "26 operation kinds, explicit relations of the three types to earlier operations or sub-circuits on ~40 % of the "
        "items, fixed / registry / global durations from {0,.25,.5,1,1.5,2,3,7} incl. zero, repetition counts 1..3 on "
        "sub-circuits, optional global-duration override; interpreted through DeclarativeCircuit.add. Oracle: (1) an "
        "order-independent correspondence between added items and present operations must exist in which every explicit "
        "relation has the declared type and reference and every relation-less item follows one of the deepest earlier "
        "items sharing a channel (or nothing); (2) every reported start/end/duration equals the reference model's "
        "(plain recursion over the program, |d| <= 1e-9); (3) the same two checks on apply_modifiers() against the "
        "unrolled model, with or without a listing before unrolling; (in half of the cases the schedule of the unfinished circuit is also read while building, before every add or before every sub-circuit add); (4) the same unrolled objects are then re-read under a "
        "second generated configuration (global override + registry values) and compared with the re-scheduled model. Non-trivial = >= 3 operations and (an explicit "
        "relation or an implicit placement with >= 2 admissible predecessors) and (nesting or a zero-length operation "
        "or a repetition); distinct = canonical JSON of (program, pre_list).")
ASSUMPTIONS = [
    "sub-circuits are nested through DeclarativeCircuit.add (copies, implicit sequencing); explicit relations are given to operations, referencing earlier operations or sub-circuits of the same circuit",
    "which of several equally deep predecessors an implicit placement follows is not specified: any is accepted, the model then follows the reported one",
    "unrolled timing is compared only when the leaf that decides each copy's start belongs to the newest copy (otherwise the property does not determine the remaining leaf set); the structural correspondence is always checked",
]


def cfg():
    return P.GenCfg(nq=4, max_items=8, max_depth=2, p_sub=22, p_rel=40, max_reps=3, globals_=True, global_zero=True,
                    max_total_leaves=60, p_dangling=8)


PEEKS = ["none", "none", "every", "before_sub"]      # read all times of the circuit being filled before (these) adds


def second_configuration():
    """A second duration configuration applied to the SAME circuit objects after they were read once."""
    from hypothesis import strategies as st
    pos = st.sampled_from([0.25, 0.5, 1.0, 1.5, 2.0, 3.0, 7.0])
    return st.none() | st.fixed_dictionaries({"g": st.lists(pos, min_size=4, max_size=4),
                                              "dreg": st.fixed_dictionaries({"k0": st.sampled_from(P.DYADIC), "k1": st.sampled_from(P.DYADIC)})})


def strat():
    from hypothesis import strategies as st
    return st.fixed_dictionaries({"program": P.program_strategy(cfg()), "pre_list": st.booleans(), "second": second_configuration(),
                                  "peek": st.sampled_from(PEEKS)})


def cfg_dense():
    """Few qubits, many small sibling sub-circuits: the shapes in which sub-circuits become interchangeable."""
    return P.GenCfg(kinds=["Wait", "Wait", "Rx180", "CPhase", "Barrier", "DispersiveMeasure", "Reset", "VirtualPark"], nq=3,
                    max_items=4, max_depth=2, p_sub=55, p_rel=25, max_reps=3, top_reps=False, globals_=False,
                    max_total_leaves=40)


def cfg_deep():
    """Few items per circuit, nesting down to five levels, counts at every level."""
    return P.GenCfg(nq=3, max_items=3, max_depth=5, p_sub=60, p_rel=35, max_reps=2, top_reps=False, globals_=True,
                    global_zero=True, max_total_leaves=48, min_sub_items=1)


def strat_deep():
    from hypothesis import strategies as st
    return st.fixed_dictionaries({"program": P.program_strategy(cfg_deep()), "pre_list": st.booleans(),
                                  "second": second_configuration(), "peek": st.sampled_from(PEEKS)})


def strat_dense():
    from hypothesis import strategies as st
    return st.fixed_dictionaries({"program": P.program_strategy(cfg_dense()), "pre_list": st.sampled_from([True, True, False]),
                                  "second": second_configuration(), "peek": st.sampled_from(PEEKS)})


def compare_times(ctx, root: M.MCirc, mapping, what: str, facts):
    bad = []
    for n in root.all_nodes():
        o = mapping.get(id(n))
        if o is None:
            continue
        rs = re = rd = None
        with ctx.lib(f"times ({what})"):
            rs, re, rd = float(o.start_time), float(o.end_time), float(o.duration)
        if rs is None:
            return
        if not (close(rs, n.start) and close(re, n.end) and close(rd, n.dur)):
            bad.append((n, rs, re, rd))
    if bad:
        n, rs, re, rd = bad[0]
        kind = "sub-circuit" if n.is_sub else n.item["k"]
        rel = (f"{n.rel_type}->#{n.ref.index}" if n.ref is not None else ("after-latest-leaf" if n.multi else "none"))
        ctx.fail(f"time-{what}", f"{what}: item {list(n.path)} copy {n.copy_index} ({kind}, relation {rel}) reports "
                 f"start/end/duration {rs}/{re}/{rd}, model {n.start}/{n.end}/{n.dur}; {len(bad)} item(s) differ",
                 dict(facts, first_bad=list(n.path), first_bad_is_sub=n.is_sub, n_bad=len(bad)))


def body(case, ctx):
    program, pre_list = case["program"], case["pre_list"]
    case.setdefault("second", None)
    case.setdefault("peek", "none")
    st = P.stats(program)
    g, dreg = program.get("g"), program.get("dreg", {})
    root = M.build(program)
    ties = M.resolve(root)          # provisional, only to classify the case
    nontrivial = (st["n_leaves"] >= 3 and (st["n_explicit"] > 0 or bool(ties))
                  and (st["nesting"] > 0 or st["n_zero"] > 0 or st["n_reps_gt1"] > 0))
    ctx.case(case, nontrivial=nontrivial, classes=[
        f"explicit={st['n_explicit'] > 0}", f"ties={bool(ties)}", f"nesting={st['nesting']}", f"zero={st['n_zero'] > 0}",
        f"reps={st['n_reps_gt1'] > 0}", f"global={st['global']}", f"pre_list={pre_list}", f"reconfigured={bool(case.get('second'))}", f"peek={case['peek']}",
        f"rel_types={''.join(st['rel_types'])}"])
    facts = {"kinds": st["kinds"], "reps": st["n_reps_gt1"] > 0, "nesting": st["nesting"], "pre_list": pre_list}
    root = M.build(program)         # fresh: implicit relations are fixed by the correspondence below
    with P.global_override(g):
        b = None

        def peek(decl, p, it):
            # a user reading the schedule of the unfinished circuit
            if case["peek"] == "every" or P.is_sub(it):
                for o in decl.operations:
                    o.start_time, o.end_time
                decl.duration

        with ctx.lib("build"):
            b = P.build(program, peek=None if case["peek"] == "none" else peek)
        if b is None:
            return
        mapping = None
        with ctx.lib("list"):
            ops = b.circuit.operations
        try:
            mapping = O.match(root, b.circuit.circuit_structure, g, dreg)
        except O.BudgetExhausted:
            ctx.note("match-budget-exhausted-built")
            return
        except O.Mismatch as e:
            ctx.fail("structure-built", str(e), facts)
        if mapping is None:
            return
        M.schedule(root, g, dreg)
        compare_times(ctx, root, mapping, "built", facts)
        t0 = None
        with ctx.lib("top start"):
            t0 = float(b.circuit.start_time)
        if t0 is not None and not close(t0, 0.0):
            ctx.fail("top-start", f"top circuit reports start {t0}", facts)
        # unrolled: either the listed circuit, or a fresh twin that was never observed (implicit tie choices are made
        # when an item is added, so the twin's are those just read off the listed circuit)
        mod = None
        with ctx.lib("apply_modifiers"):
            target = b if pre_list else P.build(program)
            mod = target.circuit.apply_modifiers()
            ops2 = mod.operations
        if mod is None:
            return
        um, info = M.unroll(root, g, dreg)
        if info["ambiguous"]:
            ctx.note("unroll-ambiguous-skip-times")
        mapping2 = None
        try:
            mapping2 = O.match(um, mod.circuit_structure, g, dreg)
        except O.Mismatch as e:
            ctx.fail("structure-unrolled", str(e), facts)
        except O.BudgetExhausted:
            ctx.note("match-budget-exhausted-unrolled")
        if mapping2 is not None and not info["ambiguous"]:
            compare_times(ctx, um, mapping2, "unrolled", facts)
        # the same objects under a second configuration (all duration assignments, not only the one they were built under)
        second = case.get("second")
        if second and mapping2 is not None:
            dreg2 = dict(dreg)
            with ctx.lib("change registry durations"):
                for k in sorted(dreg):
                    target.duration_registry.set_registry_at(k, second["dreg"].get(k, dreg[k]))
                    dreg2[k] = second["dreg"].get(k, dreg[k])
            # stage 1: only the registry values changed (still under the program's own global setting)
            if dreg2 != dreg:
                _, info1 = M.unroll(root, g, dreg2)
                M.schedule(um, g, dreg2)
                if not info1["ambiguous"] and not info["ambiguous"]:
                    compare_times(ctx, um, mapping2, "reconfigured", dict(facts, second="registry"))
            # stage 2: additionally a different global setting
            with P.global_override(second["g"]):
                um2, info2 = M.unroll(root, second["g"], dreg2)
                # same structure, new durations: re-schedule the matched model tree in place
                M.schedule(um, second["g"], dreg2)
                if not info2["ambiguous"] and not info["ambiguous"]:
                    compare_times(ctx, um, mapping2, "reconfigured", dict(facts, second="global"))


def parts():
    return [Part("deep_nesting", body, strategy=strat_deep, quick=500, thorough=3000),
            Part("dense_nesting", body, strategy=strat_dense, quick=1200, thorough=4000),
        Part("programs", body, strategy=strat, quick=1500, thorough=6000)]
