"""C03 - answers depend on the circuit, not on what was asked before (histories)."""
from __future__ import annotations

import contextlib
from typing import Any, Dict, List, Optional

from .. import env
from .. import findings
from .. import programs as P
from ..harness import Part, Violation
from ..signatures import op_sig, close, fingerprint, fp_diff

PROPERTY_ID = "C03"
RULE = ("A Hypothesis RuleBasedStateMachine generates histories over one circuit workspace. Mutation rules: add an operation "
        "(any kind, relation of any type to an earlier top-level item), add a prepared sub-circuit (nested, with fixed or "
        "registry-provided repetition count), add an operation to an already nested sub-circuit through its handle, apply_modifiers(), flatten(), DurationRegistry.set_registry_at, "
        "RepetitionRegistry.set_registry_at, enter / leave temporary_override_get_registry_at; a prepared sub-circuit may itself be "
        "observed (listed, timed, plotted, exported, copied) before it is nested. Observation rules: read "
        "operations, duration, all start/end times, acquisition indices (all three filters), to_stim, plot_circuit (compact "
        "and full), circuit_structure.copy() and an unrolled copy. Every step is recorded as plain data. Oracle "
        "(differential): whenever a mutation follows an observation, and at the end, two twins are built from the mutation "
        "log alone - one never observed, one listing its operations after every mutation - and the live circuit and both "
        "twins must give the same fingerprint (listing signatures, schedule, duration, acquisition indices, Stim text, "
        "fingerprint of a copy, fingerprint of an unrolled copy), all read under the same duration settings. The global "
        "duration lookup must be the original function after every history. Non-trivial = an observation strictly between "
        "two mutations of which at least one is a duration / count change, an unroll, a flatten, or the nesting of a "
        "sub-circuit; distinct = canonical JSON of the step list.")
ASSUMPTIONS = [
    "all three circuits are read under the same global-duration override stack (the live one's), entered in the same order",
    "operations are related only to earlier top-level items that are still part of the circuit (after flatten(), sub-circuit handles are no longer referenced)",
    "DynamicDurationStrategy callables are not generated: nothing can invalidate a memo for them and the property does not quantify over them",
]

KINDS = (["DispersiveMeasure", "Wait", "Wait", "Rx180", "Ry90", "CPhase", "Barrier", "Reset", "Identity", "VirtualPark",
          "SingleQubitOperation", "TwoQubitOperation", "DetectorOperation", "CoordinateShiftOperation", "VirtualTwoQubitVacant"])
OBS = ["operations", "duration", "times", "acq", "stim", "plot", "plot_full", "copy", "unrolled_copy"]


# ------------------------------------------------------------------------------------------------------------------
# workspace: executes recorded steps through the public API
# ------------------------------------------------------------------------------------------------------------------
class Workspace:
    def __init__(self):
        from qce_circuit.language.declarative_circuit import DeclarativeCircuit
        from qce_circuit.structure.registry_duration import DurationRegistry
        from qce_circuit.structure.registry_repetition import RepetitionRegistry
        self.circuit = DeclarativeCircuit()
        self.handles: List[Any] = []          # top-level handles still part of the circuit
        self.dreg = DurationRegistry()
        self.dreg.set_registry_at("k0", 1.0)
        self.dreg.set_registry_at("k1", 0.5)
        self.rreg = RepetitionRegistry()
        self.rreg.set_registry_at("r0", 2)
        self.stack = contextlib.ExitStack()
        self.depth = 0
        self.unrolled = False
        self.live = False            # only the live workspace performs the observations recorded inside mutation steps

    def close(self):
        self.stack.close()
        self.depth = 0

    def _built(self) -> P.Built:
        b = P.Built()
        b.duration_registry = self.dreg
        b.repetition_registry = self.rreg
        b.rep_key = "r0"
        return b

    def mutate(self, step: Dict[str, Any]):
        op = step["op"]
        if op == "add_op":
            it = dict(step["item"])
            b = self._built()
            if it.get("rel") and self.handles:
                ref = it["rel"][1] % len(self.handles)
                it["rel"] = [it["rel"][0], ref]
                b.handles[(ref,)] = self.handles[ref]
            else:
                it.pop("rel", None)
            it.pop("share", None)
            obj = P.make_operation(it, (len(self.handles) + 1000,), (), self.circuit, [], b)
            self.handles.append(self.circuit.add(obj))
        elif op == "add_sub":
            b = self._built()
            sub = P.build({"top": step["circ"], "dreg": {}}, built=b)
            if self.live and step.get("pre_obs"):
                # observe the prepared sub-circuit before it is nested (an observation, skipped by the twins)
                self._observe(sub.circuit, step["pre_obs"])
            self.handles.append(self.circuit.add(sub.circuit))
        elif op == "add_into_sub":
            # add an operation to a sub-circuit that is already nested, through the handle add() returned
            subs = [h for h in self.handles if hasattr(h, "get_sub_composite_operations")]
            if subs:
                target = subs[step["sub"] % len(subs)]
                it = dict(step["item"])
                it.pop("rel", None)
                it.pop("share", None)
                target.add(P.make_operation(it, (5000 + len(self.handles),), (), self.circuit, [], self._built()))
        elif op == "unroll":
            self.circuit = self.circuit.apply_modifiers()
            self.unrolled = True
        elif op == "flatten":
            self.circuit = self.circuit.flatten()
            self.handles = [h for h in self.handles if not hasattr(h, "get_sub_composite_operations")]
        elif op == "set_dur":
            self.dreg.set_registry_at(step["key"], step["v"])
        elif op == "set_rep":
            self.rreg.set_registry_at("r0", step["v"])
        elif op == "enter":
            self.stack.enter_context(P.global_override(step["g"]))
            self.depth += 1
        elif op == "leave":
            if self.depth:
                # ExitStack pops in LIFO order: rebuild the stack without its top
                self.stack.close()
                self.depth = 0
        else:
            raise ValueError(op)

    def observe(self, what: str):
        self._observe(self.circuit, what)

    def _observe(self, c, what: str):
        from qce_circuit.addon_stim.factory_manager import to_stim
        from qce_circuit.structure.intrf_acquisition_operation import AcquisitionTag
        if what == "operations":
            c.operations
        elif what == "duration":
            c.duration
        elif what == "times":
            [(o.start_time, o.end_time) for o in c.operations]
        elif what == "acq":
            ms = [o for o in c.operations if hasattr(o, "acquisition_index")]
            [(o.acquisition_index, o.circuit_level_acquisition_index) for o in ms]
            for q in sorted({o.qubit_index for o in ms}):
                c.get_acquisition_indices(q)
                c.get_acquisition_indices(AcquisitionTag(q, "a"))
        elif what == "stim":
            to_stim(c)
        elif what in ("plot", "plot_full"):
            import matplotlib.pyplot as plt
            from qce_circuit.visualization.visualize_circuit.display_circuit import plot_circuit
            fig, _ = plot_circuit(c, compact_visualization=(what == "plot"))
            plt.close(fig)
        elif what == "copy":
            c.circuit_structure.copy().decomposed_operations()
        elif what == "unrolled_copy":
            c.circuit_structure.copy().apply_modifiers_to_self().decomposed_operations()
        else:
            raise ValueError(what)

    def fingerprint(self) -> Dict[str, Any]:
        from qce_circuit.addon_stim.factory_manager import to_stim
        c = self.circuit
        first_duration = float(c.duration)        # asked before anything lists the circuit (again)
        first_blocks = [(float(x.start_time), float(x.duration)) for x in c.composite_operations]   # nested blocks, likewise
        fp = fingerprint(c)
        fp["duration_before_listing"] = first_duration
        fp["blocks_before_listing"] = first_blocks
        fp["stim"] = str(to_stim(c))
        cp = c.circuit_structure.copy()
        ops = cp.decomposed_operations()
        fp["copy"] = {"sigs": [op_sig(o) for o in ops], "times": [(float(o.start_time), float(o.end_time)) for o in ops],
                      "duration": float(cp.duration)}
        un = c.circuit_structure.copy().apply_modifiers_to_self()
        ops = un.decomposed_operations()
        fp["unrolled"] = {"sigs": [op_sig(o) for o in ops], "times": [(float(o.start_time), float(o.end_time)) for o in ops],
                          "duration": float(un.duration)}
        return fp


def diff_fp(a, b) -> Optional[str]:
    d = fp_diff(a, b)
    if d:
        return d
    if abs(a.get("duration_before_listing", 0.0) - b.get("duration_before_listing", 0.0)) > 1e-9:
        return (f"duration asked before the next listing: {a['duration_before_listing']} vs {b['duration_before_listing']} "
                f"(after a listing both report {a['duration']})")
    x, y = a.get("blocks_before_listing", []), b.get("blocks_before_listing", [])
    if len(x) != len(y) or any(abs(p[0] - q[0]) > 1e-9 or abs(p[1] - q[1]) > 1e-9 for p, q in zip(x, y)):
        return f"(start, duration) of the nested blocks asked before the next listing: {x} vs {y}"
    if a["stim"] != b["stim"]:
        x, y = a["stim"].splitlines(), b["stim"].splitlines()
        i = next((i for i, (p, q) in enumerate(zip(x, y)) if p != q), min(len(x), len(y)))
        return f"Stim text line {i}: {x[i:i + 1]} vs {y[i:i + 1]}"
    for key in ("copy", "unrolled"):
        d = fp_diff(a[key], b[key])
        if d:
            return f"{key}: {d}"
    return None


MUTATIONS = {"add_op", "add_sub", "add_into_sub", "unroll", "flatten", "set_dur", "set_rep", "enter", "leave"}
STRONG = {"add_sub", "add_into_sub", "unroll", "flatten", "set_dur", "set_rep", "enter", "leave"}


class Runner:
    """Executes a history step by step on the live workspace and compares with twins when due."""

    def __init__(self, ctx):
        self.ctx = ctx
        self.steps: List[Dict[str, Any]] = []
        self.live = Workspace()
        self.live.live = True
        self.observed_since_compare = False
        self.compares = 0
        self.finished = False

    def step(self, step: Dict[str, Any]):
        self.steps.append(step)
        self.ctx._case = self.steps
        if step["op"] == "obs":
            with self.ctx.lib(f"observe {step['what']}"):
                self.live.observe(step["what"])
            self.observed_since_compare = True
            return
        with self.ctx.lib(f"mutate {step['op']}"):
            self.live.mutate(step)
        if step.get("pre_obs"):
            self.observed_since_compare = True
        if self.observed_since_compare:
            self.compare("after " + step["op"])

    def compare(self, when: str):
        self.compares += 1
        self.observed_since_compare = False
        mut = [s for s in self.steps if s["op"] in MUTATIONS]
        fps = {}
        with self.ctx.lib("fingerprint live"):
            fps["live"] = self.live.fingerprint()
        # the twins are read under the live circuit's current override stack; suspend it while they are rebuilt
        live_overrides = [s for s in self.steps if s["op"] in ("enter", "leave")]
        self.live.stack.close()
        try:
            for name, listing in (("never-observed", False), ("listed-after-every-mutation", True)):
                ws = Workspace()
                try:
                    with self.ctx.lib(f"replay {name}"):
                        for s in mut:
                            ws.mutate(s)
                            if listing:
                                ws.circuit.operations
                        fps[name] = ws.fingerprint()
                finally:
                    ws.close()
            # third twin: the same structure built under the CURRENT registry durations only (every key holds its latest value
            # from the start, the superseded assignments never happen).  Not after flatten(): positions in a flattened graph
            # are chosen among the references that are latest at that moment, which is part of the structure.
            if not any(s["op"] == "flatten" for s in mut) and any(s["op"] == "set_dur" for s in mut):
                ws = Workspace()
                try:
                    with self.ctx.lib("replay under the current durations"):
                        final = {}
                        for s in mut:
                            if s["op"] == "set_dur":
                                final[s["key"]] = s["v"]
                        for key, v in sorted(final.items()):
                            ws.dreg.set_registry_at(key, v)
                        for s in mut:
                            if s["op"] != "set_dur":
                                ws.mutate(s)
                        fps["current-durations"] = ws.fingerprint()
                finally:
                    ws.close()
        finally:
            # restore the live override stack
            self.live.depth = 0
            self.live.stack = contextlib.ExitStack()
            for s in live_overrides:
                if s["op"] == "enter":
                    self.live.stack.enter_context(P.global_override(s["g"]))
                    self.live.depth += 1
                else:
                    self.live.stack.close()
                    self.live.depth = 0
        if "live" not in fps:
            return
        facts = {"when": when, "steps": [s["op"] + (":" + s["what"] if s["op"] == "obs" else "") for s in self.steps]}
        for name in ("never-observed", "listed-after-every-mutation", "current-durations"):
            if name not in fps:
                continue
            d = diff_fp(fps["live"], fps[name])
            if d:
                self.ctx.fail("history-dependence", f"{when}: the live circuit (history {facts['steps']}) differs from the "
                              f"{name} twin built from the same mutations: {d}", facts)
                return
        if "never-observed" in fps and "listed-after-every-mutation" in fps:
            d = diff_fp(fps["never-observed"], fps["listed-after-every-mutation"])
            if d:
                self.ctx.fail("history-dependence", f"{when}: twins differ: {d}", facts)

    def finish(self):
        if self.finished:
            return
        self.finished = True
        try:
            if any(s["op"] in MUTATIONS for s in self.steps):
                self.compare("end of history")
        finally:
            self.live.close()
        ops = [s["op"] for s in self.steps]
        between = False
        for i, s in enumerate(self.steps):
            if s["op"] == "obs" or s.get("pre_obs"):
                before = [t["op"] for t in self.steps[:i + (1 if s.get("pre_obs") else 0)] if t["op"] in MUTATIONS]
                after = [t["op"] for t in self.steps[i + 1:] if t["op"] in MUTATIONS]
                if before and after and (set(before) | set(after)) & STRONG:
                    between = True
        classes = [f"len>=10={len(self.steps) >= 10}", f"obs_between={between}"]
        classes += [f"has:{k}" for k in sorted(set(ops) & STRONG)]
        classes += [f"obs:{w}" for w in sorted({s['what'] for s in self.steps if s['op'] == 'obs'})]
        classes += [f"observed_sub_before_nesting={any(s.get('pre_obs') for s in self.steps)}"]
        self.ctx.case(self.steps, nontrivial=between, classes=classes)
        if not env.global_lookup_restored():
            env.force_restore_global_lookup()
            self.ctx.fail("global-lookup-not-restored", "GlobalDurationRegistry.get_registry_at is not the original function after the history")


# ------------------------------------------------------------------------------------------------------------------
# strategies / machine
# ------------------------------------------------------------------------------------------------------------------
def _repair(top):
    from .c08 import repair_annotations
    return repair_annotations({"top": top})["top"]


def item_strategy():
    cfg = P.GenCfg(kinds=KINDS, nq=4, max_items=1, min_items=1, max_depth=0, p_rel=0, globals_=False, tags=["", "a"])
    from hypothesis import strategies as st

    def with_rel(pair):
        item, rel = pair
        item = dict(item)
        if rel is not None and item["k"] not in P.NO_CTOR_RELATION:
            item["rel"] = rel
        return item
    rel = st.none() | st.tuples(st.sampled_from(["F", "S", "E"]), st.integers(0, 30)).map(list)
    return st.tuples(P.program_strategy(cfg).map(lambda p: _repair(p["top"])["items"][0]), rel).map(with_rel)


def sub_strategy():
    cfg = P.GenCfg(kinds=KINDS, nq=4, max_items=4, min_items=1, max_depth=1, p_sub=25, p_rel=35, max_reps=3, top_reps=True,
                   reg_reps=True, globals_=False, tags=["", "a"], max_total_leaves=14)
    return P.program_strategy(cfg).map(lambda p: _repair(p["top"]))


def shaped_block_strategy():
    """A repeated block whose first element is a nested sub-circuit, followed by parallel branches with registry / global
    durations: after unrolling, which leaf ends latest depends on the duration settings (relation heads of later copies)."""
    from hypothesis import strategies as st

    @st.composite
    def block(draw):
        reps = draw(st.integers(2, 3))
        head_kind = draw(st.sampled_from(["Rx180", "Wait", "DispersiveMeasure"]))
        head_item = {"k": head_kind, "q": [0]}
        if head_kind == "Wait":
            head_item.update({"ch": "ALL", "d": ["reg", draw(st.sampled_from(["k0", "k1"]))]})
        if head_kind == "DispersiveMeasure":
            head_item.update({"tag": "a", "reg": 0})
        items = [{"sub": {"reps": draw(st.sampled_from([1, 1, 2])), "items": [head_item]}}]
        for q in range(1, draw(st.integers(2, 3)) + 1):
            kind = draw(st.sampled_from(["Wait", "Wait", "Rx180", "Reset", "VirtualPark"]))
            it = {"k": kind, "q": [q]}
            if kind == "Wait":
                it.update({"ch": draw(st.sampled_from(["ALL", "MICROWAVE"])),
                           "d": draw(st.sampled_from([["reg", "k0"], ["reg", "k1"], ["fix", 1.5], ["fix", 3.0]]))})
            items.append(it)
        if draw(st.booleans()):
            items.append({"k": "Rx180", "q": [0]})
        return {"reps": reps, "items": items}
    return block()


# ------------------------------------------------------------------------------------------------------------------
# durations provided by a callable (DynamicDurationStrategy): the value may change between two questions
# ------------------------------------------------------------------------------------------------------------------
def strat_dynamic():
    from hypothesis import strategies as st
    dur = st.one_of(st.sampled_from([["dyn", "y0"], ["dyn", "y1"]]), st.sampled_from([0.5, 1.0, 2.0]).map(lambda v: ["fix", v]))
    item = st.fixed_dictionaries({"q": st.integers(0, 2), "d": dur, "gate": st.booleans()})
    val = st.sampled_from([0.5, 1.0, 1.5, 2.0, 3.0])
    return st.fixed_dictionaries({"items": st.lists(item, min_size=2, max_size=7),
                                  "first": st.fixed_dictionaries({"y0": val, "y1": val}),
                                  "second": st.fixed_dictionaries({"y0": val, "y1": val}),
                                  "observe": st.sampled_from(["times", "duration", "none"])})


def _build_dynamic(case, holder):
    from qce_circuit.language.declarative_circuit import DeclarativeCircuit
    from qce_circuit.structure.circuit_operations import Wait, Rx180
    from qce_circuit.structure.registry_duration import DynamicDurationStrategy, FixedDurationStrategy
    c = DeclarativeCircuit()
    for it in case["items"]:
        kind, v = it["d"]
        strategy = DynamicDurationStrategy(duration_call=(lambda k=v: holder[k])) if kind == "dyn" else FixedDurationStrategy(duration=v)
        c.add(Wait(it["q"], duration_strategy=strategy))
        if it["gate"]:
            c.add(Rx180(it["q"]))
    return c


def _read_dynamic(c):
    return [(type(o).__name__, float(o.start_time), float(o.end_time)) for o in c.operations] + [("circuit", 0.0, float(c.duration))]


def body_dynamic(case, ctx):
    used = {it["d"][1] for it in case["items"] if it["d"][0] == "dyn"}
    changed = sorted(k for k in used if case["first"][k] != case["second"][k])
    ctx.case(case, nontrivial=bool(changed) and case["observe"] != "none",
             classes=[f"observe={case['observe']}", f"dynamic_value_changes={bool(changed)}", f"n={len(case['items'])}"])
    live = twin = fresh = None
    with ctx.lib("dynamic durations"):
        holder = dict(case["first"])
        c = _build_dynamic(case, holder)
        if case["observe"] == "times":
            _read_dynamic(c)
        elif case["observe"] == "duration":
            c.duration
        holder.update(case["second"])              # the callables now return other values; nothing else happens
        live = _read_dynamic(c)
        twin = _read_dynamic(_build_dynamic(case, dict(case["second"])))      # same circuit, never asked before
        env.clear_time_caches()
        fresh = _read_dynamic(c)
    if live is None or twin is None or fresh is None:
        return

    def same(a, b):
        return len(a) == len(b) and all(x[0] == y[0] and abs(x[1] - y[1]) < 1e-9 and abs(x[2] - y[2]) < 1e-9 for x, y in zip(a, b))
    if not same(live, twin):
        i = next((i for i, (x, y) in enumerate(zip(live, twin)) if x != y), 0)
        ctx.fail("history-dependence-dynamic-duration", f"after the callables behind DynamicDurationStrategy changed from {case['first']} to "
                 f"{case['second']} (asked before: {case['observe']}) the circuit reports {live[i]}, a never-asked circuit "
                 f"with the same values {twin[i]}",
                 {"observed_before_change": case["observe"] != "none", "changed_keys": changed,
                  "fresh_read_after_memo_clear_matches": same(fresh, twin)})


@findings.predicate("c03_dynamic_duration_not_invalidating_memo")
def _pred_dynamic(case, facts) -> bool:
    """Start times are memoized per (relation link, own duration); nothing tells the memo that the callable of an upstream
    DynamicDurationStrategy returns another value now.  Signature: something was asked before the change, a used key changed,
    and the same circuit answers like the never-asked one once the memo is emptied."""
    return bool(facts.get("observed_before_change") and facts.get("changed_keys") and facts.get("fresh_read_after_memo_clear_matches"))


def make_machine(ctx, last):
    from hypothesis import strategies as st
    from hypothesis.stateful import RuleBasedStateMachine, rule, precondition, initialize

    dyadic = st.sampled_from([0.0, 0.0, 0.25, 0.5, 1.0, 1.5, 2.0, 3.0])     # (0.0 is the registry's default value: a boundary)

    class Histories(RuleBasedStateMachine):
        def __init__(self):
            super().__init__()
            env.clear_time_caches()
            self.runner = Runner(ctx)

        def _do(self, step):
            try:
                self.runner.step(step)
            except Violation as v:
                last["case"], last["v"] = list(self.runner.steps), v
                self.runner.live.close()
                raise

        @initialize(items=st.lists(item_strategy(), min_size=0, max_size=4), sub=st.none() | sub_strategy())
        def start(self, items, sub):
            for i, item in enumerate(items):
                self._do({"op": "add_op", "item": item})
                if sub is not None and i == 0:
                    self._do({"op": "add_sub", "circ": sub})

        @rule(item=item_strategy())
        def add_op(self, item):
            self._do({"op": "add_op", "item": item})

        @rule(item=item_strategy(), what=st.sampled_from(OBS))
        def observe_then_add(self, item, what):
            self._do({"op": "obs", "what": what})
            self._do({"op": "add_op", "item": item})

        @rule(circ=sub_strategy(), pre_obs=st.sampled_from([None, None, "operations", "times", "plot", "stim", "copy", "duration"]))
        def add_sub(self, circ, pre_obs):
            step = {"op": "add_sub", "circ": circ}
            if pre_obs:
                step["pre_obs"] = pre_obs
            self._do(step)

        @precondition(lambda self: any(hasattr(h, "get_sub_composite_operations") for h in self.runner.live.handles))
        @rule(item=item_strategy(), sub=st.integers(0, 5))
        def add_into_sub(self, item, sub):
            self._do({"op": "add_into_sub", "item": item, "sub": sub})

        @rule()
        def unroll(self):
            self._do({"op": "unroll"})

        @rule()
        def flatten(self):
            self._do({"op": "flatten"})

        @rule(key=st.sampled_from(["k0", "k1"]), v=dyadic)
        def set_dur(self, key, v):
            self._do({"op": "set_dur", "key": key, "v": v})

        @rule(circ=shaped_block_strategy(), what=st.sampled_from(["operations", "times", "plot", "duration"]),
              key=st.sampled_from(["k0", "k1"]), v=dyadic, then_flatten=st.booleans())
        def block_unroll_observe_change(self, circ, what, key, v, then_flatten):
            """The interleaving the quantifier names: nest a repeated block, unroll, observe, change a duration
            (and, half of the time, flatten: positions in the flattened graph are chosen among the then latest references)."""
            self._do({"op": "add_sub", "circ": circ})
            self._do({"op": "unroll"})
            self._do({"op": "obs", "what": what})
            self._do({"op": "set_dur", "key": key, "v": v})
            if then_flatten:
                self._do({"op": "flatten"})

        @rule(reps=st.integers(2, 3), parts=st.lists(st.sampled_from([0.5, 1.0, 1.5]), min_size=1, max_size=3),
              key=st.sampled_from(["k0", "k1"]), what=st.sampled_from(["times", "times", "duration", "plot_full"]),
              order=st.booleans(), then=st.sampled_from(["flatten", "flatten", "add_sub", "none"]), longer=st.booleans())
        def block_branches_become_equally_late(self, reps, parts, key, what, order, then, longer):
            """Boundary of the latest-leaf rule: a repeated block with one registry-timed branch and one branch of fixed pieces;
            after unrolling and an observation the registry value is set so that both branches end at the same time."""
            a = {"k": "Wait", "q": [0], "ch": "ALL", "d": ["reg", key]}
            b = [{"k": "Wait", "q": [1], "ch": "ALL", "d": ["fix", x]} for x in parts]
            # before the change the registry-timed branch is the longer / the shorter one
            self._do({"op": "set_dur", "key": key, "v": float(sum(parts)) + 1.0 if longer else max(0.0, float(sum(parts)) - 0.5)})
            self._do({"op": "add_sub", "circ": {"reps": reps, "rmode": "fix", "items": ([a] + b) if order else (b + [a])}})
            self._do({"op": "unroll"})
            self._do({"op": "obs", "what": what})
            self._do({"op": "set_dur", "key": key, "v": float(sum(parts))})
            if then == "flatten":
                self._do({"op": "flatten"})
            elif then == "add_sub":
                self._do({"op": "add_sub", "circ": {"reps": 1, "items": [{"k": "Rx180", "q": [0]}, {"k": "Rx180", "q": [1]}]}})

        @rule(key=st.sampled_from(["k0", "k1"]), v=st.sampled_from([0.25, 0.5, 1.0, 1.5, 2.0, 3.0]), q=st.integers(0, 3),
              what=st.sampled_from(["times", "duration", "operations", "stim"]), back=st.sampled_from([0.0, 0.0, 1.0, 0.5]))
        def registry_duration_assigned_twice(self, key, v, q, what, back):
            """A registry-timed operation whose key is assigned a value, looked at, and assigned again - also back to 0.0 (what a
            key that was never assigned reads as), 1.0 and 0.5 (the values the keys start with)."""
            self._do({"op": "add_op", "item": {"k": "Wait", "q": [q], "ch": "ALL", "d": ["reg", key]}})
            self._do({"op": "set_dur", "key": key, "v": v})
            self._do({"op": "obs", "what": what})
            self._do({"op": "set_dur", "key": key, "v": back})

        @rule(v=st.integers(1, 3))
        def set_rep(self, v):
            self._do({"op": "set_rep", "key": "r0", "v": v})

        @precondition(lambda self: self.runner.live.depth < 2)
        @rule(g=st.lists(st.sampled_from([0.25, 0.5, 1.0, 1.5, 2.0, 3.0]), min_size=4, max_size=4))
        def enter(self, g):
            self._do({"op": "enter", "g": g})

        @precondition(lambda self: self.runner.live.depth > 0)
        @rule()
        def leave(self):
            self._do({"op": "leave"})

        @rule(what=st.sampled_from(OBS))
        def observe(self, what):
            self._do({"op": "obs", "what": what})

        @precondition(lambda self: self.runner.live.depth == 0)
        @rule(g=st.lists(st.sampled_from([0.25, 0.5, 1.0, 1.5, 2.0, 3.0]), min_size=4, max_size=4),
              what=st.sampled_from(["times", "times", "duration", "plot_full", "copy", "acq"]))
        def override_observe_leave(self, g, what):
            """Another interleaving the quantifier names: look at the circuit under a temporary setting, then leave it."""
            self._do({"op": "enter", "g": g})
            self._do({"op": "obs", "what": what})
            self._do({"op": "leave"})

        def teardown(self):
            try:
                self.runner.finish()
            except Violation as v:
                last["case"], last["v"] = list(self.runner.steps), v
                raise
            finally:
                self.runner.live.close()
                if not env.global_lookup_restored():
                    env.force_restore_global_lookup()

    return Histories


def body_replay(case, ctx):
    """Plain re-execution of a recorded history (used by --replay and by the known-finding regressions)."""
    r = Runner(ctx)
    try:
        for step in case:
            r.step(step)
        r.finish()
    finally:
        r.live.close()
        if not env.global_lookup_restored():
            env.force_restore_global_lookup()


def parts():
    return [Part("histories", body_replay, strategy=make_machine, stateful=True, quick=340, thorough=700,
                 steps_quick=16, steps_thorough=22),
            Part("dynamic_durations", body_dynamic, strategy=strat_dynamic, quick=300, thorough=3000)]
