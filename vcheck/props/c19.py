"""C19 - channel / identifier matching behave as overlap / identity relations."""
from __future__ import annotations

import itertools

from ..harness import Part

PROPERTY_ID = "C19"
RULE = ("channel_grid: every ordered pair of ChannelIdentifier over qubit ids -2..6 x {READOUT,MICROWAVE,FLUX,ALL} "
        "(1296 pairs, exhaustive); channel_triples / edges / qubit_ids / unique: Hypothesis-generated triples of channel "
        "identifiers (ids -50..50), pairs of edge and qubit identifiers over a 5-letter name alphabet (forces "
        "collisions) plus near-miss spellings of every name (other letter case, surrounding blank, zero padding, full-width "
        "digits, proper prefix / extension, trailing NUL, casefold-equal letters) incl. foreign-type operands, and sequences of hashable elements (ints, strings, tuples, qubit and "
        "edge ids). channel_lists: generated circuits of 1-6 waits / sub-circuits of waits on 4 qubits x {ALL, MICROWAVE, FLUX, READOUT}: the channel identifiers the circuit, each sub-circuit and occupied_qubit_channels report are exactly the distinct (qubit, channel) identifiers occupied, each once (an ALL identifier and a specific one of the same qubit match but are different elements). edge_orientation: every Surface-17 edge and four non-edges x the device layer and the three shipped repetition-code layouts: everything the layout answers about an edge (contains, parity group, membership and count in edge_ids, per gate layer contains / membership, gate-sequence lookup; exceptions by type) must be the same for both orientations, and layer.contains(edge) must agree with membership in the layer's edge list (exhaustive). Non-trivial = the pair shares a qubit / the edges share >= 1 qubit name / the sequence contains a "
        "duplicate; distinct = distinct canonical JSON of the generated case.")
ASSUMPTIONS = [
    "oracle for channel matching: same qubit and (same channel or one side is ALL) - transcribed from the property statement",
    "an edge that names one qubit twice is a legal identifier: two edges are equal exactly when they name the same set of qubits",
    "unique_in_order is exercised with well-behaved hashables (eq consistent with hash); ChannelIdentifier objects are not fed to it because their hash is not claimed to be consistent with ALL-matching",
]
CHANNELS = ["READOUT", "MICROWAVE", "FLUX", "ALL"]


def _ci(spec):
    from qce_circuit.structure.intrf_circuit_operation import ChannelIdentifier, QubitChannel
    return ChannelIdentifier(_id=spec[0], _channel=QubitChannel[spec[1]])


def oracle_match(a, b) -> bool:
    return a[0] == b[0] and (a[1] == b[1] or "ALL" in (a[1], b[1]))


def body_channel_pair(case, ctx):
    a, b = case["a"], case["b"]
    ctx.case(case, nontrivial=a[0] == b[0], classes=[f"match={oracle_match(a, b)}", f"all={'ALL' in (a[1], b[1])}"])
    with ctx.lib("ChannelIdentifier =="):
        x, y = _ci(a), _ci(b)
        got, rev = (x == y), (y == x)
        neq = (x != y)
        member = x in [y]
        member_any = any(e == x for e in [y])
    exp = oracle_match(a, b)
    if got is not exp:
        ctx.fail("channel-eq", f"{a} == {b} gave {got}, oracle {exp}")
    if rev is not got:
        ctx.fail("channel-symmetry", f"{a} == {b} is {got} but reversed is {rev}")
    if neq is got:
        ctx.fail("channel-ne", f"{a} != {b} gave {neq} while == gave {got}")
    if member is not exp or member_any is not exp:
        ctx.fail("channel-in", f"{a} in [{b}] gave {member}, oracle {exp}")
    with ctx.lib("ChannelIdentifier vs foreign"):
        foreign = (x == (a[0], a[1])) or (x == a[0]) or (x == None)  # noqa: E711
    if foreign:
        ctx.fail("channel-foreign", f"{a} compared equal to a non-identifier")
    if x.id != a[0] or x.channel.name != a[1]:
        ctx.fail("channel-accessors", f"{a} reports id={x.id} channel={x.channel}")


def items_channel_grid(tier):
    ids = range(-2, 7)
    specs = [(i, c) for i in ids for c in CHANNELS]
    for a, b in itertools.product(specs, specs):
        yield {"a": list(a), "b": list(b)}


def strat_channel_triples():
    from hypothesis import strategies as st
    spec = st.tuples(st.integers(-50, 50) | st.integers(0, 3), st.sampled_from(CHANNELS)).map(list)
    return st.lists(spec, min_size=3, max_size=3)


def body_channel_triple(case, ctx):
    a, b, c = case
    shared = len({a[0], b[0], c[0]}) < 3
    ctx.case(case, nontrivial=shared, classes=[f"shared_qubit={shared}"])
    with ctx.lib("ChannelIdentifier list membership"):
        x, y, z = _ci(a), _ci(b), _ci(c)
        got_in = x in [y, z]
        got_any = any(el in [y, z] for el in [x])
        got_cnt = [y, z].count(x)
    exp_in = oracle_match(a, b) or oracle_match(a, c)
    exp_cnt = int(oracle_match(a, b)) + int(oracle_match(a, c))
    if got_in is not exp_in or got_any is not exp_in:
        ctx.fail("channel-in", f"{a} in [{b},{c}] gave {got_in}, oracle {exp_in}")
    if got_cnt != exp_cnt:
        ctx.fail("channel-count", f"[{b},{c}].count({a}) gave {got_cnt}, oracle {exp_cnt}")
    # never across qubits, whatever the channels
    for p, q in ((a, b), (a, c), (b, c)):
        if p[0] != q[0] and (_ci(p) == _ci(q)):
            ctx.fail("channel-cross-qubit", f"{p} matched {q}")


NAMES = ["D1", "D2", "X1", "Z1", "D10"]
# near-miss spellings: names that a "tolerant" comparison (case folding, stripping, unicode normalisation, numeric
# parsing, prefix matching) would wrongly identify although they are different names
VARIANTS = ["lower", "upper", "swapcase", "trail_space", "lead_space", "zero_pad", "fullwidth", "prefix", "suffix", "nul"]


def variant(name: str, how: str) -> str:
    if how == "lower":
        return name.lower()
    if how == "upper":
        return name.upper()
    if how == "swapcase":
        return name.swapcase()
    if how == "trail_space":
        return name + " "
    if how == "lead_space":
        return " " + name
    if how == "zero_pad":
        return name[:1] + "0" + name[1:]
    if how == "fullwidth":
        return "".join(chr(ord(ch) + 0xFEE0) if ch.isdigit() else ch for ch in name)
    if how == "prefix":
        return name[:-1]
    if how == "suffix":
        return name + "0"
    return name + "\x00"


def name_strategy():
    from hypothesis import strategies as st
    base = st.sampled_from(NAMES) | st.sampled_from(["d1", "x1", "Ss1", "\u00df1"])
    return base | st.tuples(base, st.sampled_from(VARIANTS)).map(lambda t: variant(*t))


def strat_edges():
    from hypothesis import strategies as st
    name = st.sampled_from(NAMES)
    plain = st.fixed_dictionaries({"e": st.tuples(name, name).map(list), "f": st.tuples(name, name).map(list)})

    @st.composite
    def near(draw):
        # f is e (either order) with near-miss spellings of its names
        e = [draw(name_strategy()), draw(name_strategy())]
        f = [variant(n, draw(st.sampled_from(VARIANTS))) if draw(st.booleans()) else n for n in e]
        if draw(st.booleans()):
            f.reverse()
        return {"e": e, "f": f}
    return plain | near()


def body_edges(case, ctx):
    from qce_circuit.connectivity.intrf_channel_identifier import EdgeIDObj, QubitIDObj
    e, f = case["e"], case["f"]
    nondeg = e[0] != e[1] and f[0] != f[1]
    share = bool(set(e) & set(f))
    ctx.case(case, nontrivial=share, classes=[f"nondegenerate={nondeg}", f"same_pair={set(e) == set(f)}"])
    with ctx.lib("EdgeIDObj"):
        E = EdgeIDObj(QubitIDObj(e[0]), QubitIDObj(e[1]))
        Er = EdgeIDObj(QubitIDObj(e[1]), QubitIDObj(e[0]))
        F = EdgeIDObj.from_qubit_ids(f[0], f[1])
        r_eq, r_hash = (E == Er) and (Er == E), hash(E) == hash(Er)
        ef, fe = E == F, F == E
        ne_pairs = [((E != Er), not (E == Er)), ((Er != E), not (Er == E)), ((E != F), not ef), ((F != E), not fe), ((E != E), False)]
        hef = hash(E) == hash(F)
        in_set = F in {E}
        in_list = F in [E]
        probe = NAMES + [n for n in f if n not in NAMES]
        contains = [E.contains(QubitIDObj(n)) for n in probe]
        foreign = (E == (e[0], e[1])) or (E == QubitIDObj(e[0])) or (E == f"{e[0]}-{e[1]}")
    if any(bool(x) is not bool(y) for x, y in ne_pairs):
        ctx.fail("edge-ne", f"Edge{e} / Edge{f}: != disagrees with 'not ==' ((!=, not ==) for reversal, reversed reversal, E F, F E, self: {ne_pairs})")
    if not r_eq:
        ctx.fail("edge-order-eq", f"Edge{e} != its reversal")
    if not r_hash:
        ctx.fail("edge-order-hash", f"hash(Edge{e}) differs from hash of its reversal")
    if foreign:
        ctx.fail("edge-foreign", f"Edge{e} equal to a non-edge object")
    if contains != [n in e for n in probe]:
        ctx.fail("edge-contains", f"Edge{e}.contains gives {contains}")
    if True:         # (also for an edge that names one qubit twice: equal exactly when both name the same set of qubits)
        exp = set(e) == set(f)
        if ef is not exp or fe is not exp:
            ctx.fail("edge-eq", f"Edge{e} == Edge{f}: {ef}/{fe}, oracle {exp}")
        if exp and not hef:
            ctx.fail("edge-hash", f"equal edges {e} {f} hash differently")
        if in_set is not exp or in_list is not exp:
            ctx.fail("edge-membership", f"Edge{f} in {{Edge{e}}} = {in_set}, in list = {in_list}, oracle {exp}")
        if exp:
            other = E.get_connected_qubit_id(QubitIDObj(f[0]))
            if other != QubitIDObj(f[1]) or other.id != f[1]:
                ctx.fail("edge-connected", f"Edge{e}.get_connected_qubit_id({f[0]}) = {other}")


def strat_qubits():
    from hypothesis import strategies as st
    name = st.sampled_from(NAMES) | st.text(alphabet="DXZ0123", min_size=0, max_size=3)
    near = st.tuples(name_strategy(), st.sampled_from(VARIANTS)).map(lambda t: [t[0], variant(*t)])
    return st.tuples(name, name).map(list) | near | near.map(lambda p: p[::-1])


def body_qubits(case, ctx):
    from qce_circuit.connectivity.intrf_channel_identifier import QubitIDObj, FeedlineIDObj
    a, b = case
    close = a != b and (a.casefold().strip() == b.casefold().strip() or a.startswith(b) or b.startswith(a))
    ctx.case(case, nontrivial=(a == b) or (a[:1] == b[:1]) or close, classes=[f"equal={a == b}", f"near_miss={close}"])
    with ctx.lib("QubitIDObj"):
        A, B = QubitIDObj(a), QubitIDObj(b)
        eq, qe = A == B, B == A
        ne, en, self_ne = A != B, B != A, A != QubitIDObj(a)
        foreign_ne = (A != a) and (A != FeedlineIDObj(a)) and (A != None)  # noqa: E711
        h = hash(A) == hash(B)
        foreign = (A == a) or (A == FeedlineIDObj(a)) or (A == None)  # noqa: E711
        members = (B in {A}, B in [A], {A: 1}.get(B))
        ident = (A.id, A.name)
    exp = a == b
    if eq is not exp or qe is not exp:
        ctx.fail("qubit-eq", f"QubitID({a!r}) == QubitID({b!r}) gave {eq}/{qe}")
    if bool(ne) is exp or bool(en) is exp or bool(self_ne):
        ctx.fail("qubit-ne", f"QubitID({a!r}) != QubitID({b!r}) gave {ne}/{en} (same name: {exp}); != with an equal-named copy of itself: {self_ne}")
    if not foreign_ne:
        ctx.fail("qubit-foreign", f"QubitID({a!r}) != a foreign object gave False")
    if exp and not h:
        ctx.fail("qubit-hash", f"equal qubit ids {a!r} hash differently")
    if foreign:
        ctx.fail("qubit-foreign", f"QubitID({a!r}) equal to a foreign object")
    if members != (exp, exp, 1 if exp else None):
        ctx.fail("qubit-membership", f"set/list/dict membership {members} for {a!r},{b!r}")
    if ident != (a, a):
        ctx.fail("qubit-accessors", f"id/name {ident} for {a!r}")


# ------------------------------------------------------------------------------------------------------------------
# edge identity through the library's own lookups: whatever takes an edge gives the same answer for both orientations
# ------------------------------------------------------------------------------------------------------------------
LAYOUTS = ["Surface17Layer", "Repetition9Code", "Repetition9Round6Code", "Repetition5Round4Code"]


def _layout(name):
    if name == "Surface17Layer":
        from qce_circuit.connectivity.connectivity_surface_code import Surface17Layer
        return Surface17Layer()
    from qce_circuit.library.repetition_code import repetition_code_connectivity as layouts
    return getattr(layouts, name)()


def items_orientation(tier):
    from .. import device as D
    extra = [("D1", "D2"), ("X1", "Z1"), ("D5", "X1"), ("D1", "Q9")]      # pairs that are no edge of the device
    for name in LAYOUTS:
        for a, b in list(D.EDGES) + extra:
            yield {"layout": name, "edge": [a, b]}


def body_orientation(case, ctx):
    from qce_circuit.connectivity.intrf_channel_identifier import EdgeIDObj, QubitIDObj
    from .. import device as D
    a, b = case["edge"]
    is_edge = tuple(sorted((a, b))) in {tuple(sorted(e)) for e in D.EDGES}
    ctx.case(case, nontrivial=is_edge, classes=[f"layout={case['layout']}", f"device_edge={is_edge}"])

    def answers(x, y):
        """Everything the layout says about the edge written x-y (exceptions by type)."""
        layout = _layout(case["layout"])
        e = EdgeIDObj(QubitIDObj(x), QubitIDObj(y))
        out = {}

        def ask(key, f):
            try:
                out[key] = f()
            except Exception as exc:       # noqa: BLE001 - an orientation-dependent exception is the finding
                out[key] = f"raises {type(exc).__name__}"
        ask("contains", lambda: bool(layout.contains(e)))
        ask("parity_group", lambda: sorted(g.ancilla_id.id for g in layout.get_parity_group(e)))
        ask("in_edge_ids", lambda: e in layout.edge_ids)
        ask("count_edge_ids", lambda: layout.edge_ids.count(e))
        if hasattr(layout, "gate_sequence_count"):
            n = layout.gate_sequence_count
            layers = [layout.get_gate_sequence_at_index(i) for i in range(n)]
            ask("layer_contains", lambda: [bool(layer.contains(e)) for layer in layers])
            ask("layer_edge_membership", lambda: [e in layer.edge_ids for layer in layers])
            ask("sequence_from_element", lambda: [i for i, layer in enumerate(layers)
                                                  if layer is layout.get_gate_sequence_from_element(e)
                                                  or layer == layout.get_gate_sequence_from_element(e)])
        return out

    fwd = rev = None
    with ctx.lib("edge lookups"):
        fwd, rev = answers(a, b), answers(b, a)
    if fwd is None or rev is None:
        return
    for key in fwd:
        if fwd[key] != rev.get(key):
            ctx.fail("edge-orientation", f"{case['layout']}: {key} for edge {a}-{b} gives {fwd[key]}, for {b}-{a} gives {rev.get(key)}")
    # and the two ways of asking a layer agree: contains(edge) <=> the edge is one of the layer's gates
    if "layer_contains" in fwd and isinstance(fwd["layer_contains"], list) and isinstance(fwd.get("layer_edge_membership"), list):
        if fwd["layer_contains"] != fwd["layer_edge_membership"]:
            ctx.fail("edge-orientation", f"{case['layout']}: layer.contains({a}-{b}) = {fwd['layer_contains']} but membership in the "
                     f"layers' edge lists = {fwd['layer_edge_membership']}")


# ------------------------------------------------------------------------------------------------------------------
# de-duplication as the circuit uses it: the channel identifiers a (sub-)circuit occupies
# ------------------------------------------------------------------------------------------------------------------
def strat_channel_lists():
    from hypothesis import strategies as st
    op = st.fixed_dictionaries({"q": st.integers(0, 3), "ch": st.sampled_from(["ALL", "MICROWAVE", "FLUX", "READOUT"])})
    leaf_list = st.lists(op, min_size=1, max_size=5)
    item = op | leaf_list.map(lambda ops: {"sub": ops})
    return st.lists(item, min_size=1, max_size=6)


def body_channel_lists(case, ctx):
    from qce_circuit.language.declarative_circuit import DeclarativeCircuit
    from qce_circuit.structure.circuit_operations import Wait
    from qce_circuit.structure.intrf_circuit_operation import QubitChannel
    flat = [(o["q"], o["ch"]) for it in case for o in (it["sub"] if "sub" in it else [it])]
    mixed = any(a[0] == b[0] and a[1] != b[1] and "ALL" in (a[1], b[1]) for a in flat for b in flat)
    ctx.case(case, nontrivial=mixed, classes=[f"all_and_specific_on_one_qubit={mixed}", f"nested={any('sub' in it for it in case)}"])

    def first_occurrences(pairs):
        seen, out = set(), []
        for p in pairs:
            if p not in seen:
                seen.add(p)
                out.append(p)
        return out

    got = None
    with ctx.lib("channel identifiers of a circuit"):
        top = DeclarativeCircuit()
        blocks = []
        for it in case:
            if "sub" in it:
                sub = DeclarativeCircuit()
                for o in it["sub"]:
                    sub.add(Wait(o["q"], qubit_channel=QubitChannel[o["ch"]]))
                blocks.append((top.add(sub), [(o["q"], o["ch"]) for o in it["sub"]]))
            else:
                top.add(Wait(it["q"], qubit_channel=QubitChannel[it["ch"]]))
        as_pairs = lambda ids: [(c.id, c.channel.name) for c in ids]      # noqa: E731
        got = {"structure": as_pairs(top.circuit_structure.channel_identifiers), "occupied": as_pairs(top.occupied_qubit_channels),
               "blocks": [(as_pairs(b.channel_identifiers), want) for b, want in blocks]}
    if got is None:
        return
    # every occupied (qubit, channel) identifier once; as a set for the circuit (its listing order is a C02 matter), in
    # first-occurrence order for a block of implicitly sequenced single-qubit operations on one line each
    want = first_occurrences(flat)
    for name in ("structure", "occupied"):
        if sorted(got[name]) != sorted(want) or len(got[name]) != len(set(got[name])):
            ctx.fail("channel-list", f"{name}: the circuit reports channel identifiers {got[name]}, it occupies exactly {want} (each once)")
    for ids, pairs in got["blocks"]:
        if sorted(ids) != sorted(first_occurrences(pairs)):
            ctx.fail("channel-list", f"a sub-circuit holding waits on {pairs} reports channel identifiers {ids}")


def strat_unique():
    from hypothesis import strategies as st
    atom = (st.integers(-3, 5) | st.sampled_from(["a", "b", "", "ab"]) | st.tuples(st.integers(0, 2), st.integers(0, 2)).map(list)
            | st.sampled_from(NAMES).map(lambda n: {"qubit": n}) | name_strategy().map(lambda n: {"qubit": n})
            | st.tuples(st.sampled_from(NAMES[:3]), st.sampled_from(NAMES[:3])).filter(lambda t: t[0] != t[1]).map(lambda t: {"edge": list(t)}))
    return st.lists(atom, max_size=14)


def _materialise(x):
    from qce_circuit.connectivity.intrf_channel_identifier import EdgeIDObj, QubitIDObj
    if isinstance(x, dict) and "qubit" in x:
        return QubitIDObj(x["qubit"])
    if isinstance(x, dict) and "edge" in x:
        return EdgeIDObj.from_qubit_ids(*x["edge"])
    if isinstance(x, list):
        return tuple(x)
    return x


def _key(x):
    # oracle identity of an element, independent of library __eq__/__hash__
    if isinstance(x, dict) and "edge" in x:
        return ("edge", tuple(sorted(x["edge"])))
    if isinstance(x, dict):
        return ("qubit", x["qubit"])
    if isinstance(x, list):
        return ("tuple", tuple(x))
    return (type(x).__name__, x)


def body_unique(case, ctx):
    from qce_circuit.utilities.array_manipulation import unique_in_order
    keys = [_key(x) for x in case]
    dup = len(set(keys)) < len(keys)
    ctx.case(case, nontrivial=dup, classes=[f"dup={dup}", f"len>=5={len(case) >= 5}"])
    objs = [_materialise(x) for x in case]
    with ctx.lib("unique_in_order"):
        out = unique_in_order(objs)
        again = unique_in_order(out)
        from_iter = unique_in_order(iter(objs))
    # oracle: first occurrence of every element, in order (object identity of the first occurrence)
    seen, exp = set(), []
    for k, o in zip(keys, objs):
        if k not in seen:
            seen.add(k)
            exp.append(o)
    if len(out) != len(exp) or any(o is not e for o, e in zip(out, exp)):
        ctx.fail("unique-first", f"unique_in_order({case}) gave {out}, expected first occurrences {exp}")
    if not isinstance(out, list):
        ctx.fail("unique-type", f"returned {type(out).__name__}")
    if len(again) != len(out) or any(o is not e for o, e in zip(again, out)):
        ctx.fail("unique-idempotent", f"second application changed {out} to {again}")
    if len(from_iter) != len(exp) or any(o is not e for o, e in zip(from_iter, exp)):
        ctx.fail("unique-iter", f"iterator input gave {from_iter}")
    if len(objs) != len(case):
        ctx.fail("unique-mutated-input", "input list was modified")


def parts():
    return [
        Part("channel_grid", body_channel_pair, items=items_channel_grid, exhaustive=True),
        Part("channel_triples", body_channel_triple, strategy=strat_channel_triples, quick=3000, thorough=20000, fuzz_quick=2000, fuzz_thorough=30000),
        Part("edges", body_edges, strategy=strat_edges, quick=3000, thorough=10000),
        Part("edge_orientation", body_orientation, items=items_orientation, exhaustive=True),
        Part("channel_lists", body_channel_lists, strategy=strat_channel_lists, quick=400, thorough=3000),
        Part("qubit_ids", body_qubits, strategy=strat_qubits, quick=2000, thorough=10000),
        Part("unique", body_unique, strategy=strat_unique, quick=3000, thorough=20000, fuzz_quick=2000, fuzz_thorough=30000),
    ]
