"""C07 - acquisition indices enumerate measurements exactly, in order."""
from __future__ import annotations

from .. import model as M
from .. import programs as P
from .. import findings
from ..harness import Part
from ..signatures import close

PROPERTY_ID = "C07"
RULE = ("programs: Hypothesis build programs rich in DispersiveMeasure (about half of the items) on <= 5 qubits with tags "
        "from {'', a, b}, interleaved with gates, nesting <= 3 with repetition counts 1..3 at every level (also the top "
        "circuit), each measurement created against the registry of its own circuit or of an ancestor up to the root; "
        "intermediate circuits with default and non-default repetition strategy. In half of the cases every measurement's indices are also read while the circuit is being built (before every add) and once more before unrolling. After apply_modifiers(): with M = the "
        "measurements in listing order, circuit-level index of M[k] = k, per-qubit index = rank among the same qubit, "
        "get_acquisition_indices(q) = 0..n_q-1, get_acquisition_indices(AcquisitionTag(q, tag)) = exactly the ranks of "
        "the matching measurements (so tags partition), the qubit sequence of M targets in to_stim().flattened() = qubit "
        "sequence of M, never -1; for implicitly sequenced programs free of channel overlaps the per-qubit index "
        "increases with start time; a measurement added after unrolling through the returned circuit's acquisition "
        "strategy gets the next index. library: repetition-code / multi-round / calibration circuits - same clauses "
        "plus per-qubit index increasing with start time. Non-trivial = >= 2 measured qubits, >= 2 tags and (a "
        "measurement below the top level or a count >= 2); distinct = canonical JSON.")
ASSUMPTIONS = [
    "indices are only claimed for circuits whose modifiers are applied, so every circuit is unrolled before it is observed",
    "a measurement's registry is that of the circuit it is added to or of one of the circuits that circuit is (later) nested in - the way the library constructors use registries",
]
KINDS = ["DispersiveMeasure"] * 5 + ["Rx180", "Ry90", "CPhase", "Barrier", "Wait", "Reset"]


def cfg(explicit: bool):
    return P.GenCfg(kinds=KINDS, nq=5, max_items=7, max_depth=3, p_sub=30, p_rel=(30 if explicit else 0), max_reps=3,
                    top_reps=True, reg_reps=False, globals_=False, max_reg_up=3, max_total_leaves=32)


def strat():
    from hypothesis import strategies as st
    return st.one_of(
        # early: indices are also read while the circuit is being built (before every add) and before unrolling
        st.fixed_dictionaries({"program": P.program_strategy(cfg(True)), "late": st.booleans(), "early": st.booleans()}),
        st.fixed_dictionaries({"program": P.program_strategy(cfg(False)), "late": st.booleans(), "early": st.booleans()}),
    )


def check_indices(ctx, circ, what, facts, increasing: bool):
    """All index clauses on a modifier-applied circuit."""
    from qce_circuit.structure.intrf_acquisition_operation import IAcquisitionOperation, AcquisitionTag
    from qce_circuit.addon_stim.factory_manager import to_stim
    ms = None
    with ctx.lib(f"{what}: operations"):
        ops = list(circ.operations)
        ms = [o for o in ops if isinstance(o, IAcquisitionOperation)]
        got = [(o.circuit_level_acquisition_index, o.acquisition_index) for o in ms]
        qubits = [o.qubit_index for o in ms]
        tags = [o.acquisition_tag for o in ms]
        starts = [float(o.start_time) for o in ms]
    if ms is None:
        return None
    rank = {}
    exp = []
    for k, q in enumerate(qubits):
        exp.append((k, rank.get(q, 0)))
        rank[q] = rank.get(q, 0) + 1
    if got != exp:
        i = next(i for i, (a, b) in enumerate(zip(got, exp)) if a != b)
        ctx.fail("index", f"{what}: measurement #{i} (qubit {qubits[i]}, tag {tags[i]!r}) reports (circuit-level, "
                 f"per-qubit) index {got[i]}, expected {exp[i]}; all: {got}", dict(facts, minus_one=any(-1 in g for g in got)))
        return ms
    for q in sorted(set(qubits) | {max(qubits, default=0) + 1}):
        r = None
        with ctx.lib(f"{what}: get_acquisition_indices(qubit)"):
            r = [int(x) for x in circ.get_acquisition_indices(q)]
        if r is not None and r != list(range(rank.get(q, 0))):
            ctx.fail("indices-by-qubit", f"{what}: get_acquisition_indices({q}) = {r}, expected 0..{rank.get(q, 0) - 1}", facts)
        for t in sorted(set(tags) | {"zz"}):
            r = None
            with ctx.lib(f"{what}: get_acquisition_indices(tag)"):
                r = [int(x) for x in circ.get_acquisition_indices(AcquisitionTag(q, t))]
            want = [e[1] for e, qq, tt in zip(exp, qubits, tags) if qq == q and tt == t]
            if r is not None and r != want:
                ctx.fail("indices-by-tag", f"{what}: get_acquisition_indices(({q},{t!r})) = {r}, expected {want}", facts)
    # measurement record order of the exported program
    rec = None
    with ctx.lib(f"{what}: to_stim"):
        sc = to_stim(circ).flattened()
        rec = [t.value for ins in sc if ins.name in ("M", "MZ") for t in ins.targets_copy()]
    if rec is not None and rec != qubits:
        ctx.fail("record-order", f"{what}: exported measurement record targets {rec}, listing order {qubits}", facts)
    if increasing:
        last = {}
        for i, (q, s) in enumerate(zip(qubits, starts)):
            if q in last and s < last[q] - 1e-9:
                extra = facts.get("lazy")() if callable(facts.get("lazy")) else {}
                ctx.fail("index-vs-time", f"{what}: qubit {q}: measurement with per-qubit index {exp[i][1]} starts at {s}, "
                         f"before its predecessor ({last[q]})", dict({k: v for k, v in facts.items() if k != "lazy"}, **extra))
                break
            last[q] = s
    return ms


def overlap_free(circ) -> bool:
    ops = list(circ.operations)
    spans = [([(c.id, c.channel.name) for c in o.channel_identifiers], float(o.start_time), float(o.end_time)) for o in ops]
    spans = [s for s in spans if s[2] - s[1] > 1e-9]
    for i in range(len(spans)):
        for j in range(i + 1, len(spans)):
            a, b = spans[i], spans[j]
            if a[1] < b[2] - 1e-9 and b[1] < a[2] - 1e-9 and M.any_match(a[0], b[0]):
                return False
    return True


def body(case, ctx):
    from qce_circuit.structure.circuit_operations import DispersiveMeasure
    program = case["program"]
    st = P.stats(program)
    leaves = [(p, it) for p, it in P.iter_items(program["top"]) if not P.is_sub(it)]
    meas = [(p, it) for p, it in leaves if it["k"] == "DispersiveMeasure"]
    nested_meas = any(len(p) > 1 for p, _ in meas)
    anc_reg = any(it.get("reg", 0) > 0 for _, it in meas)
    explicit = st["n_explicit"] > 0
    nontrivial = (len({it["q"][0] for _, it in meas}) >= 2 and len({it.get("tag", "") for _, it in meas}) >= 2
                  and (nested_meas or st["n_reps_gt1"] > 0))
    ctx.case(case, nontrivial=nontrivial, classes=[
        f"n_meas>=4={len(meas) >= 4}", f"nested_meas={nested_meas}", f"ancestor_registry={anc_reg}",
        f"reps={st['n_reps_gt1'] > 0}", f"top_reps={program['top'].get('reps', 1) > 1}", f"explicit={explicit}",
        f"late={case['late']}", f"early={bool(case.get('early'))}", f"nesting={st['nesting']}"])
    facts = {"explicit": explicit, "ancestor_registry": anc_reg, "top_reps": program["top"].get("reps", 1) > 1}
    b = mod = None

    def read_indices(decl):
        for o in decl.operations:
            if isinstance(o, DispersiveMeasure):
                o.acquisition_index, o.circuit_level_acquisition_index
                decl.get_acquisition_indices(o.qubit_index)

    def peek(decl, p, it):
        read_indices(decl)

    with ctx.lib("build + apply_modifiers"):
        b = P.build(program, peek=peek if case.get("early") else None)
        if case.get("early"):
            read_indices(b.circuit)
        mod = b.circuit.apply_modifiers()
    if mod is None:
        return
    inc = False
    if not explicit:
        with ctx.lib("overlap check"):
            inc = overlap_free(mod)

    def placement_follows_the_documented_rule():
        """Evaluated only when the time-order clause fails: is the unrolled circuit's schedule exactly the one the placement
        rule of C01 gives (reference model: an operation or block without relation follows the deepest earlier item sharing a
        channel; every copy of a repeated block follows the latest-ending leaf of the previous one)?  Then the clause fails
        because of the rule, not because of how it is implemented."""
        from .. import observe as O
        try:
            g, dreg = program.get("g"), program.get("dreg", {})
            root = M.build(program)
            twin = P.build(program)
            twin.circuit.operations
            O.match(root, twin.circuit.circuit_structure, g, dreg)          # fixes the implicit choices in the model
            M.schedule(root, g, dreg)
            um, info = M.unroll(root, g, dreg)
            if info["ambiguous"]:
                return {"placement_as_documented": False, "model": "ambiguous"}
            mapping = O.match(um, mod.circuit_structure, g, dreg)
            ok = all(abs(float(mapping[id(n)].start_time) - n.start) < 1e-9 for n in um.all_nodes() if id(n) in mapping)
            return {"placement_as_documented": bool(ok)}
        except Exception as e:        # noqa: BLE001
            return {"placement_as_documented": False, "model_error": type(e).__name__}
    ms = check_indices(ctx, mod, "unrolled", dict(facts, lazy=placement_follows_the_documented_rule), increasing=inc)
    if ms is None or not case["late"]:
        return
    # a measurement added after unrolling, through the returned circuit
    with ctx.lib("late measurement"):
        q = ms[0].qubit_index if ms else 0
        late = DispersiveMeasure(qubit_index=q, acquisition_strategy=mod.get_acquisition_strategy(), acquisition_tag="late")
        mod.add(late)
    check_indices(ctx, mod, "after late add", dict(facts, late=True), increasing=False)


# ------------------------------------------------------------------------------------------------------------------
def items_library(tier):
    ds = [2, 3] if tier == "quick" else [2, 3, 4]
    cyc = [0, 1, 2, 3, 4] if tier == "quick" else range(0, 8)
    for d in ds:
        for c in cyc:
            yield {"ctor": "repcode", "d": d, "cycles": c}
        yield {"ctor": "simplified", "d": d, "cycles": 3}
        yield {"ctor": "multi", "d": d, "rounds": [0, 2, 1] if d == 2 else [3, 0]}
    yield {"ctor": "calibration", "d": 3, "type": "QUBIT"}
    yield {"ctor": "calibration", "d": 3, "type": "QUTRIT"}


def build_library(case):
    from qce_circuit.language.intrf_declarative_circuit import InitialStateContainer, InitialStateEnum
    from qce_circuit.library.repetition_code import circuit_constructors as cc
    from qce_circuit.library.repetition_code.circuit_components import RepetitionCodeDescription
    from qce_circuit.library.state_calibration.circuit_components import CalibrationDescription, CalibrateType
    from qce_circuit.library.state_calibration.circuit_constructors import construct_calibration_circuit
    from qce_circuit.connectivity.intrf_channel_identifier import QubitIDObj
    d = case["d"]
    init = InitialStateContainer.from_ordered_list([InitialStateEnum.ZERO if i % 2 == 0 else InitialStateEnum.ONE for i in range(d)])
    if case.get("states"):          # any of the six preparable states per data qubit
        init = InitialStateContainer.from_ordered_list([InitialStateEnum[name] for name in case["states"]])
    desc = RepetitionCodeDescription.from_initial_state(init, qubit_refocusing=case.get("refocus", True))
    if case["ctor"] == "repcode":
        return cc.construct_repetition_code_circuit(qec_cycles=case["cycles"], description=desc, initial_state=init)
    if case["ctor"] == "simplified":
        return cc.construct_repetition_code_circuit_simplified(qec_cycles=case["cycles"], description=desc, initial_state=init)
    if case["ctor"] == "multi":
        return cc.construct_repetition_code_multi_round_circuit(qec_cycles=case["rounds"], description=desc, initial_state=init)
    ids = [QubitIDObj(f"D{i}") for i in range(d)]
    return construct_calibration_circuit(CalibrationDescription(_qubit_ids=ids, _qubit_index_map={q: i for i, q in enumerate(ids)},
                                                                _type=CalibrateType[case["type"]]))


def body_library(case, ctx):
    ctx.case(case, nontrivial=case.get("cycles", 1) >= 1 or case["ctor"] != "repcode", classes=[f"ctor={case['ctor']}", f"d={case['d']}"])
    mod = None
    with ctx.lib("construct + apply_modifiers"):
        circ = build_library(case)
        mod = circ.apply_modifiers()
    if mod is None:
        return
    check_indices(ctx, mod, case["ctor"], {"library": True}, increasing=case["ctor"] != "simplified")


def parts():
    return [
        Part("programs", body, strategy=strat, quick=1200, thorough=4000),
        Part("library", body_library, items=items_library),
    ]


@findings.predicate("c07_depth_based_placement_orders_indices_against_time")
def _pred_depth_placement(case, facts) -> bool:
    """An operation or block without relation is placed behind the DEEPEST earlier item sharing a channel (C01), which need
    not be the one that ends last; something that spans two qubit lines (a barrier, a two-qubit gate, a sub-circuit) can
    therefore be sequenced behind a short deep chain while a longer shallow one is still running, and a later-added
    measurement is then listed - and indexed - after an earlier-added one although it starts before it, without any channel
    overlap.  Signature: the unrolled circuit's schedule is exactly the one the documented placement rule gives."""
    return bool(facts.get("placement_as_documented"))
