"""C17 - shipped gate-sequence layouts and the repetition-code descriptions derived from them are executable."""
from __future__ import annotations

from typing import Dict, List, Optional, Sequence, Tuple

from ..harness import Part
from .. import device as D
from .. import findings

PROPERTY_ID = "C17"
RULE = ("shipped: the Surface-17 layer and every layout class defined in repetition_code_connectivity.py (discovered at "
        "run time: Repetition9Code, Repetition9Round6Code, Repetition5Round4Code), each checked layer by layer "
        "(exhaustive). subchains: for each layout with a gate sequence every contiguous window of its qubit chain "
        "(17-qubit chain D1-X1-D2-...-X4-D9 for the two distance-9 layouts, 9-qubit chain D3-Z2-...-X3-D7 for the distance-5 "
        "one) given to RepetitionCodeDescription.from_connectivity (exhaustive over windows). derived: Hypothesis-"
        "generated (layout, ordered list of distinct involved qubits out of the 17 device qubits, optional explicit index "
        "map) built as shuffled / reversed windows, windows plus foreign qubits, or arbitrary subsets (size 0-17). "
        "composite: CompositeRepetitionCodeDescription over such a base (biased to windows of >= 7 qubits) with 0-3 excluded "
        "edges (biased to gates that share their layer with other kept gates and to gates whose removal leaves one of their "
        "qubits in need of parking), 0-2 excluded qubits, only-required-parking on/off and its own index map. chains: from_chain(length) for "
        "every odd length 1-41 (quick) / 1-121 (thorough). Non-trivial = the kept gates touch at least two parity groups "
        "(two different ancillas); distinct = distinct canonical JSON of the case.")
ASSUMPTIONS = [
    "the device is vcheck/device.py (own transcription of Surface-17: 17 qubits, 24 edges, idle levels); 'requires "
    "parking' is the C16 rule evaluated on that table",
    "the shipped layouts are read through the public API (gate_sequence_count, get_gate_sequence_at_index, "
    "parity_group_x/z); the gates a derived description must keep are computed from that listing by the stated rule "
    "(both qubits involved, minus exclusions), layer by layer",
    "required parking is only evaluated for layers whose gates are device edges on pairwise distinct qubits (otherwise the "
    "layer already failed)",
    "index clauses: the id->index map restricted to the description's qubit_ids must be injective, equal the supplied map "
    "when one is supplied, cover 0..n-1 when the default map is used and all involved qubits are data/ancilla qubits of "
    "the layout; circuit_channel_map must be its inverse; get_gate_sequence_indices / get_park_sequence_indices must be "
    "the images of the kept gates / of the parked qubits that belong to qubit_ids",
    "from_chain is defined for odd lengths (2*distance-1, as from_initial_state calls it); even lengths raise IndexError "
    "and are outside the domain. Its qubits are abstract chain positions, so 'device edge' means chain neighbours",
    "composite descriptions are built without leading readout / gate descriptions",
    "extra parking beyond what is required, gates outside any parity group and the acceptance (C16) of a layer are not "
    "judged: the statement does not claim them",
]

CHAIN17 = "D1 X1 D2 X2 D3 Z2 D6 Z4 D5 Z1 D4 Z3 D7 X3 D8 X4 D9".split()
CHAIN9 = "D3 Z2 D6 Z4 D5 Z1 D4 X3 D7".split()
CHAINS = {"Repetition9Code": CHAIN17, "Repetition9Round6Code": CHAIN17, "Repetition5Round4Code": CHAIN9}


# ---------------------------------------------------------------------------------------------------
# library access (public API only) -> plain data
# ---------------------------------------------------------------------------------------------------
def _layout_classes() -> Dict[str, type]:
    import inspect
    from qce_circuit.library.repetition_code import repetition_code_connectivity as mod
    from qce_circuit.connectivity.generic_gate_sequence import GenericSurfaceCode
    out = {}
    for name, obj in sorted(vars(mod).items()):
        if inspect.isclass(obj) and issubclass(obj, GenericSurfaceCode) and obj is not GenericSurfaceCode \
                and obj.__module__ == mod.__name__:
            out[name] = obj
    return out


def _layout(name: str):
    return _layout_classes()[name]()


def _q(name: str):
    from qce_circuit.connectivity.intrf_channel_identifier import QubitIDObj
    return QubitIDObj(name)


def _e(pair: Sequence[str]):
    from qce_circuit.connectivity.intrf_channel_identifier import EdgeIDObj
    return EdgeIDObj(_q(pair[0]), _q(pair[1]))


def _layer_data(layer) -> Tuple[List[Tuple[str, str]], List[str]]:
    gates = [(op.identifier.qubit_ids[0].id, op.identifier.qubit_ids[1].id) for op in layer.gate_operations]
    parks = [op.identifier.id for op in layer.park_operations]
    return gates, parks


def _layout_data(layout) -> Dict[str, object]:
    layers = [_layer_data(layout.get_gate_sequence_at_index(i)) for i in range(layout.gate_sequence_count)]
    groups = [(g.ancilla_id.id, [d.id for d in g.data_ids]) for g in list(layout.parity_group_x) + list(layout.parity_group_z)]
    return {"layers": layers, "groups": groups,
            "data": [q.id for q in layout.data_qubit_ids], "ancilla": [q.id for q in layout.ancilla_qubit_ids]}


def _canon(gates) -> List[Tuple[str, str]]:
    return sorted(D.edge(a, b) for a, b in gates)


# ---------------------------------------------------------------------------------------------------
# the executable-layer predicate
# ---------------------------------------------------------------------------------------------------
def check_layer(ctx, where: str, gates: List[Tuple[str, str]], parks: List[str], extra_facts: Optional[dict] = None):
    facts = {"where": where, "gates": gates, "parks": parks}
    facts.update(extra_facts or {})
    bad = [g for g in gates if not D.is_edge(*g)]
    if bad:
        ctx.fail("gate-not-device-edge", f"{where}: gates {bad} are not edges of the device", dict(facts, bad=bad))
    qubits = [q for g in gates for q in g]
    reused = sorted({q for q in qubits if qubits.count(q) > 1})
    if reused:
        ctx.fail("layer-qubit-reused", f"{where}: qubits {reused} take part in more than one gate of the layer {gates}",
                 dict(facts, reused=reused))
    both = sorted(set(parks) & set(qubits))
    if both:
        ctx.fail("parked-and-gated", f"{where}: qubits {both} are parked and gated in the same layer "
                                     f"(gates {gates}, parked {sorted(parks)})", dict(facts, both=both))
    if bad or reused:
        return
    required = D.required_parking(gates)
    missing = sorted(set(required) - set(parks))
    if missing:
        ctx.fail("park-missing", f"{where}: gates {gates} require parking of {sorted(required)} but only {sorted(parks)} "
                                 f"are parked (missing {missing})", dict(facts, missing=missing, required=sorted(required)))


def check_coverage(ctx, where: str, wanted_edges: List[Tuple[str, str]], layers_gates: List[List[Tuple[str, str]]]):
    used = [e for gates in layers_gates for e in _canon(gates)]
    for e in sorted(set(wanted_edges)):
        n = used.count(e)
        if n != 1:
            ctx.fail("parity-edge-count", f"{where}: ancilla-data edge {e} of a parity group is exercised {n} times over one "
                                          f"full sequence (expected exactly once)", {"where": where, "edge": e, "count": n})


def _group_edges(groups) -> List[Tuple[str, str]]:
    return [D.edge(a, d) for a, ds in groups for d in ds]


# ---------------------------------------------------------------------------------------------------
# shipped layouts
# ---------------------------------------------------------------------------------------------------
def items_shipped(tier):
    yield {"layout": "Surface17Layer"}
    for name in _layout_classes():
        yield {"layout": name}


def body_shipped(case, ctx):
    name = case["layout"]
    if name == "Surface17Layer":
        return _body_surface17(case, ctx)
    ctx.case(case, nontrivial=True, classes=[f"layout={name}"])
    data = None
    with ctx.lib(f"{name}() listing"):
        data = _layout_data(_layout(name))
    if data is None:
        return
    for i, (gates, parks) in enumerate(data["layers"]):
        check_layer(ctx, f"{name} layer {i}", gates, parks)
    edges = _group_edges(data["groups"])
    off_device = sorted(e for e in edges if not D.is_edge(*e))
    if off_device:
        ctx.fail("parity-edge-not-device-edge", f"{name}: parity-group edges {off_device} are not edges of the device",
                 {"edges": off_device})
    check_coverage(ctx, name, edges, [g for g, _ in data["layers"]])


def _body_surface17(case, ctx):
    ctx.case(case, nontrivial=True, classes=["layout=Surface17Layer"])
    from qce_circuit.connectivity.connectivity_surface_code import Surface17Layer
    listing = None
    with ctx.lib("Surface17Layer listing"):
        layer = Surface17Layer()
        listing = {
            "qubits": sorted(q.id for q in layer.qubit_ids),
            "edges": sorted(D.edge(e.qubit_ids[0].id, e.qubit_ids[1].id) for e in layer.edge_ids),
            "groups": [(g.ancilla_id.id, [d.id for d in g.data_ids], sorted(D.edge(e.qubit_ids[0].id, e.qubit_ids[1].id) for e in g.edge_ids))
                       for g in list(layer.parity_group_x) + list(layer.parity_group_z)],
            "neighbours": {q: sorted(n.id for n in layer.get_neighbors(_q(q))) for q in D.QUBITS},
            "edges_of": {q: sorted(D.edge(e.qubit_ids[0].id, e.qubit_ids[1].id) for e in layer.get_edges(_q(q))) for q in D.QUBITS},
        }
    if listing is None:
        return
    if listing["qubits"] != sorted(D.QUBITS):
        ctx.fail("surface17-qubits", f"Surface-17 lists qubits {listing['qubits']}, the device has {sorted(D.QUBITS)}")
    if listing["edges"] != D.EDGES:
        ctx.fail("surface17-edges", f"Surface-17 edge list differs from the device: not on the device "
                                    f"{sorted(set(listing['edges']) - set(D.EDGES))}, device edges missing {sorted(set(D.EDGES) - set(listing['edges']))}, "
                                    f"{len(listing['edges'])} entries")
    for q in D.QUBITS:
        if listing["neighbours"][q] != sorted(D.NEIGHBOURS[q]):
            ctx.fail("surface17-neighbours", f"neighbours of {q}: {listing['neighbours'][q]}, device {sorted(D.NEIGHBOURS[q])}")
        if listing["edges_of"][q] != sorted(D.edge(q, n) for n in D.NEIGHBOURS[q]):
            ctx.fail("surface17-neighbours", f"edges of {q}: {listing['edges_of'][q]}")
    edges = []
    for anc, datas, group_edges in listing["groups"]:
        declared = sorted(D.edge(anc, d) for d in datas)
        if group_edges != declared:
            ctx.fail("surface17-parity-edges", f"parity group {anc}: edge_ids {group_edges} are not ancilla x data {declared}")
        edges.extend(declared)
    off_device = sorted(e for e in edges if not D.is_edge(*e))
    if off_device:
        ctx.fail("parity-edge-not-device-edge", f"Surface-17 parity-group edges {off_device} are not edges of the device",
                 {"edges": off_device})


# ---------------------------------------------------------------------------------------------------
# derived descriptions
# ---------------------------------------------------------------------------------------------------
def _kept(layer_gates, involved, exclude_edges=(), exclude_qubits=()):
    excluded = {D.edge(*e) for e in exclude_edges}
    return [g for g in layer_gates
            if g[0] in involved and g[1] in involved and D.edge(*g) not in excluded
            and g[0] not in exclude_qubits and g[1] not in exclude_qubits]


def _wanted_edges(ldata, involved, exclude_edges=(), exclude_qubits=()):
    return [D.edge(*g) for g in _kept(_group_edges(ldata["groups"]), involved, exclude_edges, exclude_qubits)]


def _classes(case, ldata, kept_layers):
    involved = case["involved"]
    ancillas = {q for gates in kept_layers for g in gates for q in g if q in ldata["ancilla"]}
    n_gates = sum(len(g) for g in kept_layers)
    window = _is_window(case["layout"], involved)
    labels = [f"layout={case['layout']}", f"groups_touched={min(len(ancillas), 4)}{'+' if len(ancillas) >= 4 else ''}",
              f"kept_gates={'0' if n_gates == 0 else ('1-4' if n_gates <= 4 else '5+')}",
              f"involved={'0-2' if len(involved) <= 2 else ('3-7' if len(involved) <= 7 else '8+')}",
              f"contiguous_window={window}", f"explicit_index_map={case.get('index_map') is not None}"]
    return len(ancillas) >= 2, labels


def _is_window(layout: str, involved: List[str]) -> bool:
    chain = CHAINS.get(layout)
    if not chain or not involved or any(q not in chain for q in involved):
        return False
    pos = sorted(chain.index(q) for q in involved)
    return pos == list(range(pos[0], pos[0] + len(pos)))


def _index_map(case) -> Optional[Dict[str, int]]:
    if case.get("index_map") is None:
        return None
    return dict(zip(case["involved"], case["index_map"]))


def _describe(desc):
    """Everything C17 observes of a description, as plain data."""
    sequences = desc.gate_sequences
    layers = [_layer_data(layer) for layer in sequences]
    qids = [q.id for q in desc.qubit_ids]
    out = {
        "layers": layers,
        "count": desc.gate_sequence_count,
        "qids": qids,
        "data": [q.id for q in desc.data_qubit_ids],
        "ancilla": [q.id for q in desc.ancilla_qubit_ids],
        "index": [desc.map_qubit_id_to_circuit_index(_q(q)) for q in qids],
        "indices": list(desc.qubit_indices),
        "channel_map": {k: v.id for k, v in desc.circuit_channel_map.items()},
        "gate_indices": [desc.get_gate_sequence_indices(i) for i in range(len(layers))],
        "park_indices": [desc.get_park_sequence_indices(i) for i in range(len(layers))],
    }
    out["element"] = [desc.get_element(i).id for i in out["index"]] if len(set(out["index"])) == len(qids) else None
    out["get_index"] = [desc.get_index(_q(q)) for q in qids]
    return out


def check_indices(ctx, where: str, obs, expected_qids: List[str], supplied: Optional[Dict[str, int]], default_range: Optional[int],
                  expected_kept: List[List[Tuple[str, str]]]):
    qids, index = obs["qids"], obs["index"]
    if sorted(qids) != sorted(expected_qids):
        ctx.fail("qubit-ids", f"{where}: qubit_ids {qids} should be the involved data/ancilla qubits {expected_qids}, each once",
                 {"qids": qids, "expected": expected_qids})
    if len(set(index)) != len(index):
        ctx.fail("index-not-injective", f"{where}: qubit ids {qids} map to circuit indices {index}", {"qids": qids, "index": index})
        return
    m = dict(zip(qids, index))
    if supplied is not None:
        wrong = {q: (m[q], supplied[q]) for q in qids if q in supplied and m[q] != supplied[q]}
        if wrong:
            ctx.fail("index-map-ignored", f"{where}: supplied index map not honoured (got, supplied): {wrong}", {"wrong": wrong})
    elif default_range is not None and sorted(qids) == sorted(expected_qids):
        if sorted(index) != list(range(default_range)):
            ctx.fail("index-not-onto", f"{where}: default indices {sorted(index)} are not 0..{default_range - 1}", {"index": index})
    if obs["indices"] != index or obs["get_index"] != index:
        ctx.fail("index-accessors", f"{where}: qubit_indices {obs['indices']} / get_index {obs['get_index']} differ from the map {index}")
    inverse = {i: q for q, i in m.items()}
    if obs["channel_map"] != inverse:
        ctx.fail("channel-map", f"{where}: circuit_channel_map {obs['channel_map']} is not the inverse {inverse} of the index map",
                 {"channel_map": obs["channel_map"], "inverse": inverse})
    if obs["element"] is not None and obs["element"] != qids:
        ctx.fail("channel-map", f"{where}: get_element over the indices gives {obs['element']}, expected {qids}")
    for i, (gates, parks) in enumerate(obs["layers"]):
        want_pairs = sorted(tuple(sorted((m[a], m[b]))) for a, b in expected_kept[i] if a in m and b in m) \
            if i < len(expected_kept) else None
        got = obs["gate_indices"][i]
        got_pairs = None if got is None else sorted(tuple(sorted(p)) for p in got)
        if want_pairs is not None and got_pairs != want_pairs:
            ctx.fail("gate-indices", f"{where}: get_gate_sequence_indices({i}) = {got}, kept gates {expected_kept[i]} map to {want_pairs}",
                     {"layer": i, "got": got, "want": want_pairs})
        want_parks = sorted(m[q] for q in parks if q in m)
        got_parks = obs["park_indices"][i]
        if got_parks is None or sorted(got_parks) != want_parks:
            ctx.fail("park-indices", f"{where}: get_park_sequence_indices({i}) = {got_parks}, parked {parks} within {qids} map to {want_parks}",
                     {"layer": i, "got": got_parks, "want": want_parks})


def check_description(ctx, where: str, obs, ldata, involved: List[str], expected_kept, wanted_edges, supplied, default_range,
                      composite_facts=None):
    if obs["count"] != len(expected_kept) or len(obs["layers"]) != len(expected_kept):
        ctx.fail("layer-count", f"{where}: {len(obs['layers'])} layers (gate_sequence_count {obs['count']}), layout has {len(expected_kept)}")
    for i, (gates, parks) in enumerate(obs["layers"]):
        if i < len(expected_kept) and _canon(gates) != _canon(expected_kept[i]):
            ctx.fail("kept-gates", f"{where} layer {i}: keeps {_canon(gates)}, the gates of the layout with both qubits involved"
                                   f"{' (minus exclusions)' if composite_facts else ''} are {_canon(expected_kept[i])}",
                     {"layer": i, "got": _canon(gates), "want": _canon(expected_kept[i])})
        extra = None
        if composite_facts is not None:
            removed = [g for g in composite_facts["base_kept"][i] if D.edge(*g) not in _canon(expected_kept[i])] \
                if i < len(composite_facts["base_kept"]) else []
            extra = {"layer": i, "removed_gate_qubits": sorted({q for g in removed for q in g}),
                     "only_required": composite_facts["only_required"]}
        check_layer(ctx, f"{where} layer {i}", gates, parks, extra)
    # parity-group edges that lie inside the involved qubits (and are not excluded): exactly once over the sequence
    check_coverage(ctx, where, wanted_edges, [g for g, _ in obs["layers"]])
    expected_qids = [q for q in involved if q in ldata["data"] or q in ldata["ancilla"]]
    check_indices(ctx, where, obs, expected_qids, supplied, default_range, expected_kept)
    if obs["data"] != [q for q in involved if q in ldata["data"]] or obs["ancilla"] != [q for q in involved if q in ldata["ancilla"]]:
        ctx.fail("qubit-ids", f"{where}: data {obs['data']} / ancilla {obs['ancilla']} are not the involved data / ancilla qubits in order",
                 {"data": obs["data"], "ancilla": obs["ancilla"]})


def body_derived(case, ctx):
    from qce_circuit.library.repetition_code.circuit_components import RepetitionCodeDescription
    name, involved = case["layout"], case["involved"]
    layout = _layout(name)
    ldata = _layout_data(layout)
    expected_kept = [_kept(gates, involved) for gates, _ in ldata["layers"]]
    nontrivial, labels = _classes(case, ldata, expected_kept)
    ctx.case(case, nontrivial=nontrivial, classes=labels)
    supplied = _index_map(case)
    obs = None
    with ctx.lib("RepetitionCodeDescription.from_connectivity"):
        desc = RepetitionCodeDescription.from_connectivity(
            involved_qubit_ids=[_q(q) for q in involved], connectivity=layout,
            qubit_index_map=None if supplied is None else {_q(q): i for q, i in supplied.items()})
        obs = _describe(desc)
    if obs is None:
        return
    all_layout_qubits = all(q in ldata["data"] or q in ldata["ancilla"] for q in involved)
    check_description(ctx, f"from_connectivity({name}, {involved})", obs, ldata, involved, expected_kept,
                      _wanted_edges(ldata, involved), supplied, len(involved) if all_layout_qubits else None)


def items_subchains(tier):
    for name in _layout_classes():
        chain = CHAINS.get(name)
        if chain is None:
            continue
        for i in range(len(chain)):
            for j in range(i + 1, len(chain) + 1):
                yield {"layout": name, "involved": chain[i:j], "index_map": None}


def _strat_involved(st, name):
    chain = CHAINS.get(name, D.QUBITS)

    @st.composite
    def window(draw):
        # Hypothesis favours small integers: draw the length both ways round so that long windows are as common as short
        length = draw(st.one_of(st.integers(1, len(chain)), st.integers(0, len(chain) - 1).map(lambda k: len(chain) - k)))
        start = draw(st.integers(0, len(chain) - length))
        return chain[start:start + length]

    @st.composite
    def window_plus(draw):
        w = list(draw(window()))
        rest = [q for q in D.QUBITS if q not in w]
        extra = draw(st.lists(st.sampled_from(rest), max_size=3, unique=True)) if rest else []
        return w + extra

    subset = st.one_of(st.lists(st.sampled_from(D.QUBITS), max_size=17, unique=True),
                       st.lists(st.sampled_from(D.QUBITS), min_size=6, max_size=17, unique=True),
                       st.lists(st.sampled_from(D.QUBITS), max_size=6, unique=True).map(lambda out: [q for q in D.QUBITS if q not in out]))
    reorder = st.sampled_from(["keep", "reverse", "shuffle"])

    @st.composite
    def involved(draw):
        qubits = list(draw(st.one_of(window(), window_plus(), subset)))
        how = draw(reorder)
        if how == "reverse":
            qubits.reverse()
        elif how == "shuffle":
            qubits = list(draw(st.permutations(qubits)))
        return qubits

    return involved()


def _strat_index_map(st, n: int):
    if n == 0:
        return st.none()
    return st.one_of(st.none(), st.none(), st.permutations(list(range(n))).map(list),
                     st.lists(st.integers(-3, 40), min_size=n, max_size=n, unique=True))


def strat_derived():
    from hypothesis import strategies as st
    names = [n for n in _layout_classes()]

    @st.composite
    def case(draw):
        name = draw(st.sampled_from(names))
        involved = draw(_strat_involved(st, name))
        return {"layout": name, "involved": involved, "index_map": draw(_strat_index_map(st, len(involved)))}

    return case()


# ---------------------------------------------------------------------------------------------------
# composite descriptions
# ---------------------------------------------------------------------------------------------------
@findings.predicate("c17_composite_static_parking")
def _pred_composite_static_parking(case, facts) -> bool:
    """Composite description that keeps the base's parking list (only-required-parking off) while an exclusion has
    taken a gate out of the layer: the qubit that is missing from the parking list is a qubit of a removed gate."""
    return (isinstance(case, dict) and case.get("only_required") is False
            and bool(facts.get("missing")) and facts.get("only_required") is False
            and set(facts["missing"]) <= set(facts.get("removed_gate_qubits", [])))


def strat_composite():
    from hypothesis import strategies as st
    names = [n for n in _layout_classes()]
    layers_of = {n: [gates for gates, _ in _layout_data(_layout(n))["layers"]] for n in names}

    @st.composite
    def long_window(draw, name):
        chain = CHAINS.get(name, D.QUBITS)
        length = draw(st.integers(min(7, len(chain)), len(chain)))
        start = draw(st.integers(0, len(chain) - length))
        qubits = chain[start:start + length]
        rest = [q for q in D.QUBITS if q not in qubits]
        extra = draw(st.lists(st.sampled_from(rest), max_size=3, unique=True)) if rest else []
        return list(draw(st.permutations(qubits + extra))) if draw(st.booleans()) else qubits + extra

    @st.composite
    def case(draw):
        name = draw(st.sampled_from(names))
        involved = draw(st.one_of(_strat_involved(st, name), long_window(name), long_window(name)))
        kept = [_kept(gates, involved) for gates in layers_of[name]]
        inside = sorted({D.edge(*g) for gates in kept for g in gates})
        crowded = sorted({D.edge(*g) for gates in kept if len(gates) >= 2 for g in gates})   # gates with company in their layer
        # gates whose removal leaves one of their qubits in need of parking (oracle used as a generation bias only)
        critical = sorted({D.edge(*g) for gates in kept if D.qubit_disjoint(gates) for g in gates
                           if any(D.requires_parking(q, [h for h in gates if h != g]) for q in g)})
        pools = [p for p in (critical, critical, crowded, inside, list(D.EDGES)) if p]
        edges = draw(st.lists(st.sampled_from(draw(st.sampled_from(pools))), min_size=min(1, draw(st.integers(0, 2))),
                              max_size=3, unique=True))
        flips = draw(st.lists(st.booleans(), min_size=len(edges), max_size=len(edges)))
        qubit_pools = [p for p in (sorted({q for g in crowded for q in g}), involved, D.QUBITS) if p]
        qubits = draw(st.lists(st.sampled_from(draw(st.sampled_from(qubit_pools))), max_size=2, unique=True)) \
            if draw(st.integers(0, 2)) == 0 else []
        return {"layout": name, "involved": involved, "index_map": draw(_strat_index_map(st, len(involved))),
                "exclude_edges": [[e[1], e[0]] if f else [e[0], e[1]] for e, f in zip(edges, flips)],
                "exclude_qubits": qubits, "only_required": draw(st.sampled_from([False, True, True])),
                "composite_index_map": draw(_strat_index_map(st, len(involved)))}

    return case()


def body_composite(case, ctx):
    from qce_circuit.library.repetition_code.circuit_components import RepetitionCodeDescription, CompositeRepetitionCodeDescription
    name, involved = case["layout"], case["involved"]
    layout = _layout(name)
    ldata = _layout_data(layout)
    base_kept = [_kept(gates, involved) for gates, _ in ldata["layers"]]
    expected_kept = [_kept(gates, involved, case["exclude_edges"], case["exclude_qubits"]) for gates, _ in ldata["layers"]]
    nontrivial, labels = _classes(case, ldata, expected_kept)
    removed = sum(len(b) - len(k) for b, k in zip(base_kept, expected_kept))
    # the class where a static parking list can go wrong: a qubit idled by an exclusion now has to be parked
    newly = any(D.requires_parking(q, k) for b, k in zip(base_kept, expected_kept) if D.qubit_disjoint(k)
                for q in {q for g in b if g not in k for q in g})
    labels += [f"only_required={case['only_required']}", f"gates_removed={min(removed, 3)}{'+' if removed >= 3 else ''}",
               f"excluded_qubits={len(case['exclude_qubits'])}", f"idled_qubit_needs_parking={newly}",
               f"idled_qubit_needs_parking={newly}/only_required={case['only_required']}"]
    ctx.case(case, nontrivial=nontrivial, classes=labels)
    supplied_base = _index_map(case)
    own = None if case.get("composite_index_map") is None else dict(zip(involved, case["composite_index_map"]))
    composite_map = own if own is not None else (supplied_base if supplied_base is not None else {q: i for i, q in enumerate(involved)})
    obs = None
    with ctx.lib("CompositeRepetitionCodeDescription"):
        base = RepetitionCodeDescription.from_connectivity(
            involved_qubit_ids=[_q(q) for q in involved], connectivity=layout,
            qubit_index_map=None if supplied_base is None else {_q(q): i for q, i in supplied_base.items()})
        desc = CompositeRepetitionCodeDescription(
            _base_description=base,
            _qubit_index_map={_q(q): i for q, i in composite_map.items()},
            _connectivity=layout,
            _exclude_gate_edge_ids=[_e(e) for e in case["exclude_edges"]],
            _exclude_gate_qubit_ids=[_q(q) for q in case["exclude_qubits"]],
            _only_required_parking_operations=case["only_required"],
        )
        obs = _describe(desc)
    if obs is None:
        return
    check_description(ctx, f"composite({name}, {involved}, -edges {case['exclude_edges']}, -qubits {case['exclude_qubits']}, "
                           f"only_required={case['only_required']})", obs, ldata, involved, expected_kept,
                      _wanted_edges(ldata, involved, case["exclude_edges"], case["exclude_qubits"]), composite_map, None,
                      composite_facts={"base_kept": base_kept, "only_required": case["only_required"]})


# ---------------------------------------------------------------------------------------------------
# abstract chains
# ---------------------------------------------------------------------------------------------------
def items_chains(tier):
    top = 41 if tier == "quick" else 121
    for n in range(1, top + 1, 2):
        yield {"length": n}


def body_chain(case, ctx):
    from qce_circuit.library.repetition_code.circuit_components import RepetitionCodeDescription
    n = case["length"]
    ctx.case(case, nontrivial=n >= 5, classes=[f"chain_length={'1-3' if n <= 3 else ('5-21' if n <= 21 else '23+')}"])
    names = [f"D{i}" for i in range(n)]
    obs, groups = None, None
    with ctx.lib("RepetitionCodeDescription.from_chain"):
        desc = RepetitionCodeDescription.from_chain(length=n)
        obs = _describe(desc)
        groups = []
        for q in obs["ancilla"]:
            found = desc.get_parity_group(_q(q))
            groups.extend((g.ancilla_id.id, [d.id for d in g.data_ids]) for g in found if g.ancilla_id.id == q)
    if obs is None or groups is None:
        return
    where = f"from_chain({n})"
    position = {q: i for i, q in enumerate(names)}
    chain_edges = [D.edge(names[i], names[i + 1]) for i in range(n - 1)]
    for i, (gates, parks) in enumerate(obs["layers"]):
        off = [g for g in gates if g[0] not in position or g[1] not in position or abs(position[g[0]] - position[g[1]]) != 1]
        if off:
            ctx.fail("gate-not-device-edge", f"{where} layer {i}: gates {off} do not join chain neighbours")
        qubits = [q for g in gates for q in g]
        reused = sorted({q for q in qubits if qubits.count(q) > 1})
        if reused:
            ctx.fail("layer-qubit-reused", f"{where} layer {i}: qubits {reused} take part in more than one gate ({gates})")
        if set(parks) & set(qubits):
            ctx.fail("parked-and-gated", f"{where} layer {i}: {sorted(set(parks) & set(qubits))} parked and gated")
    # ancilla = odd positions, each with its two neighbours; every such edge exactly once
    want_groups = sorted((names[p], [names[p - 1], names[p + 1]]) for p in range(1, n, 2))
    if sorted((a, sorted(d, key=position.get)) for a, d in groups) != want_groups:
        ctx.fail("chain-parity-groups", f"{where}: parity groups {groups}, chain has {want_groups}")
    check_coverage(ctx, where, chain_edges + _group_edges(groups), [g for g, _ in obs["layers"]])
    if obs["data"] != names[0::2] or obs["ancilla"] != names[1::2]:
        ctx.fail("qubit-ids", f"{where}: data {obs['data']} / ancilla {obs['ancilla']}")
    kept = [gates for gates, _ in obs["layers"]]
    check_indices(ctx, where, obs, names, None, n, kept)


def parts():
    return [
        Part("shipped", body_shipped, items=items_shipped, exhaustive=True),
        Part("subchains", body_derived, items=items_subchains, exhaustive=True),
        Part("derived", body_derived, strategy=strat_derived, quick=500, thorough=2500),
        Part("composite", body_composite, strategy=strat_composite, quick=200, thorough=600),
        Part("chains", body_chain, items=items_chains, exhaustive=True),
    ]
