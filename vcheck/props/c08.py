"""C08 - the Stim export is the in-order image of the circuit."""
from __future__ import annotations

import cmath
import math

from .. import observe as O
from .. import programs as P
from ..harness import Part, HarnessError

PROPERTY_ID = "C08"
RULE = ("programs: Hypothesis build programs (<= 8 items per circuit, nesting <= 2, 4 qubits) over all 26 operation kinds "
        "(12 exported gate kinds, 3 annotation kinds, 11 kinds the exporter does not support), repetition counts 1..3 "
        "at every level, detector / observable / coordinate-shift annotations with generated index fields (all five "
        "detector target shapes, kept within Stim's lookback domain). Oracle: an independent translation table (validated "
        "once per run against stim.gate_data unitaries / flags: H, I, X, Y, +-90 degree X/Y rotations, CZ, R, M) applied "
        "to the operation listing; the export, with REPEAT blocks expanded and fused targets split, must equal the "
        "listing translated one by one with every sub-circuit expanded in place and repeated its count; unsupported kinds "
        "omitted, nothing else present; the instruction multiset must also equal the translation of the program's own "
        "items x enclosing counts (annotations keep their fields through every copy); in about half of the cases the unfinished circuit is also exported once before a generated top-level item is added (that export = translated listing of the prefix) and the finished object is exported once more after it was unrolled; after apply_modifiers() the export equals the translated (now count-free) "
        "listing, and has the same instruction multiset and measurement count as before. library: repetition-code "
        "circuits d=2..4, 0..6 cycles, and the simplified constructor with 0, 1, 3 cycles (0 cycles = a sub-circuit with repetition count 0): identical expanded program before / after unrolling. Non-trivial = >= 1 "
        "unsupported kind, >= 1 annotation and >= 1 nested block; distinct = canonical JSON.")
ASSUMPTIONS = [
    "the operation listing is taken as given (its correctness is C02); the exported program is compared with it",
    "the five detector target shapes and the observable shape are a transcription of the documented formulas; their physical meaning is checked by C09",
    "stim.CircuitRepeatBlock / gate_data / targets_copy are trusted",
]

GATE = {"Reset": "R", "Hadamard": "H", "Identity": "I", "CPhase": "CZ", "DispersiveMeasure": "M", "Rx180": "X",
        "Rx90": "SQRT_X", "Rxm90": "SQRT_X_DAG", "Ry180": "Y", "Ry90": "SQRT_Y", "Rym90": "SQRT_Y_DAG"}
_validated = False


def _rot(axis, theta):
    c, s = math.cos(theta / 2), math.sin(theta / 2)
    if axis == "x":
        return [[c, -1j * s], [-1j * s, c]]
    return [[c, -s], [s, c]]


def _same_up_to_phase(a, b) -> bool:
    flat_a = [x for row in a for x in row]
    flat_b = [complex(x) for row in b for x in row]
    k = next(i for i, x in enumerate(flat_a) if abs(x) > 1e-9)
    if abs(flat_b[k]) < 1e-9:
        return False
    ph = flat_b[k] / flat_a[k]
    return abs(abs(ph) - 1) < 1e-6 and all(abs(x * ph - y) < 1e-6 for x, y in zip(flat_a, flat_b))


def validate_table():
    """The oracle's gate names must denote the rotation the class name says (independent of the library)."""
    global _validated
    if _validated:
        return
    import stim
    h = 1 / math.sqrt(2)
    want = {
        "H": [[h, h], [h, -h]], "I": [[1, 0], [0, 1]], "X": _rot("x", math.pi), "Y": _rot("y", math.pi),
        "SQRT_X": _rot("x", math.pi / 2), "SQRT_X_DAG": _rot("x", -math.pi / 2),
        "SQRT_Y": _rot("y", math.pi / 2), "SQRT_Y_DAG": _rot("y", -math.pi / 2),
    }
    for name, u in want.items():
        if not _same_up_to_phase(u, stim.gate_data(name).unitary_matrix):
            raise HarnessError(f"oracle table: stim gate {name} is not the expected rotation")
    cz = stim.gate_data("CZ").unitary_matrix
    if not _same_up_to_phase([[1, 0, 0, 0], [0, 1, 0, 0], [0, 0, 1, 0], [0, 0, 0, -1]], cz):
        raise HarnessError("oracle table: CZ")
    if not stim.gate_data("R").is_reset or not stim.gate_data("M").produces_measurements:
        raise HarnessError("oracle table: R / M flags")
    _validated = True


def translate(op):
    """Expected token of one listed operation, or None when the exporter omits its kind."""
    cls = type(op).__name__
    if cls in GATE:
        if cls == "CPhase":
            return (GATE[cls], (op.control_qubit_index, op.target_qubit_index), ())
        return (GATE[cls], (op.qubit_index,), ())
    if cls == "Barrier":
        return ("TICK", (), ())
    if cls == "CoordinateShiftOperation":
        return ("SHIFT_COORDS", (), (float(op.space_shift), float(op.time_shift)))
    if cls == "LogicalObservableOperation":
        if op.last_acquisition_index is not None and op.main_target is not None:
            return ("OBSERVABLE_INCLUDE", (("rec", op.main_target - (op.last_acquisition_index + 1)),), (0.0,))
        return ("OBSERVABLE_INCLUDE", (), (0.0,))      # Stim requires the observable index argument
    if cls == "DetectorOperation":
        last, main, sec, ref, soff = (op.last_acquisition_index, op.main_target, op.secondary_target,
                                      op.reference_offset, op.secondary_offset)
        args = (float(op.qubit_index), 0.0)
        if main is None:
            return ("DETECTOR", (), ())
        m = main - (last + 1)
        if sec is None and ref is None:
            t = [m]
        elif sec is None:
            t = [m, m - ref]
        elif ref is None:
            t = [m, sec - (last + 1)]
        elif soff is None:
            t = [m, sec - (last + 1), -ref]
        else:
            t = [m, sec - (last + 1), -ref, -ref - soff]
        return ("DETECTOR", tuple(("rec", x) for x in t), args)
    return None


class _ItemView:
    """Duck-typed view of a program item with the attribute names `translate` reads from library objects."""

    def __init__(self, it):
        k, q = it["k"], it["q"]
        self.__class__ = type(k, (_ItemView,), {})
        if len(q) >= 1:
            self.qubit_index = q[0]
        if k == "CPhase":
            self.control_qubit_index, self.target_qubit_index = q
        if k == "CoordinateShiftOperation":
            self.time_shift, self.space_shift = it["f"]
        if k == "DetectorOperation":
            (self.last_acquisition_index, self.main_target, self.secondary_target, self.reference_offset,
             self.secondary_offset) = it["f"]
        if k == "LogicalObservableOperation":
            self.last_acquisition_index, self.main_target = it["f"]


def program_token_multiset(circ, factor=1, out=None):
    """Multiset of expected tokens computed from the PROGRAM (not from library objects): leaves x enclosing counts."""
    out = {} if out is None else out
    for it in circ["items"]:
        if P.is_sub(it):
            program_token_multiset(it["sub"], factor * it["sub"].get("reps", 1), out)
        else:
            t = translate(_ItemView(it))
            if t is not None:
                out[t] = out.get(t, 0) + factor
    return out


def expected_tokens(comp):
    """Translate the listing of a composite, sub-circuits expanded in place and repeated their count."""
    direct_leaves, direct_subs, leaves = O.children(comp)
    owner = {}
    for s in direct_subs:
        for o in s.decomposed_operations():
            owner[id(o)] = s
    out, done = [], set()
    for o in leaves:
        s = owner.get(id(o))
        if s is None:
            t = translate(o)
            if t is not None:
                out.append(t)
        elif id(s) not in done:
            done.add(id(s))
            out.extend(expected_tokens(s) * s.nr_of_repetitions)
    return out


def stim_tokens(circuit):
    """Expand REPEAT blocks ourselves (keeps SHIFT_COORDS, unlike flattened()) and split fused targets."""
    import stim
    out = []
    for ins in circuit:
        if isinstance(ins, stim.CircuitRepeatBlock):
            out.extend(stim_tokens(ins.body_copy()) * ins.repeat_count)
            continue
        name = ins.name
        args = tuple(float(a) for a in ins.gate_args_copy())
        targets = ins.targets_copy()
        if name in ("DETECTOR", "OBSERVABLE_INCLUDE"):
            out.append((name, tuple(("rec", t.value) if t.is_measurement_record_target else ("q", t.value) for t in targets), args))
        elif name in ("TICK", "SHIFT_COORDS"):
            out.append((name, (), args))
        elif name == "CZ":
            vals = [t.value for t in targets]
            for i in range(0, len(vals), 2):
                out.append((name, (vals[i], vals[i + 1]), args))
        else:
            if name == "MZ":
                name = "M"
            for t in targets:
                out.append((name, (t.value,), args))
    return out


def repair_annotations(program):
    """Keep generated annotation fields inside Stim's domain (every record lookback negative)."""
    for _, it in P.iter_items(program["top"]):
        if P.is_sub(it):
            continue
        if it["k"] == "DetectorOperation":
            last, main, sec, ref, soff = it["f"]
            if main is not None:
                main = min(main, last)
            if sec is not None:
                sec = min(sec, last)
            if ref is not None and sec is not None:
                ref = max(ref, 1)
            it["f"] = [last, main, sec, ref, soff]
        elif it["k"] == "LogicalObservableOperation":
            last, main = it["f"]
            if last is not None and main is not None:
                main = min(main, last)
            it["f"] = [last, main]
    return program


def cfg():
    return P.GenCfg(nq=4, max_items=8, max_depth=2, p_sub=25, p_rel=25, max_reps=3, top_reps=False, globals_=False,
                    max_reg_up=2, max_total_leaves=50)


def strat():
    from hypothesis import strategies as st
    # early: export the unfinished circuit once before the top-level item of that number is added (None: single export)
    return st.fixed_dictionaries({"program": P.program_strategy(cfg()).map(repair_annotations),
                                  "early": st.none() | st.integers(0, 7)})


def first_diff(a, b):
    for i, (x, y) in enumerate(zip(a, b)):
        if x != y:
            return f"position {i}: expected {x}, exported {y}"
    return f"length: expected {len(a)}, exported {len(b)}; first surplus {(a + b)[min(len(a), len(b))] if len(a) != len(b) else None}"


def multiset(tokens):
    out = {}
    for t in tokens:
        out[t] = out.get(t, 0) + 1
    return out


def body(case, ctx):
    from qce_circuit.addon_stim.factory_manager import to_stim
    validate_table()
    # (older replay files hold the bare program)
    program, early = (case["program"], case["early"]) if "program" in case else (case, None)
    if early is not None and early >= len(program["top"]["items"]):
        early = None
    st = P.stats(program)
    unsupported = [k for k in st["kinds"] if k not in GATE and k not in ("Barrier",) + tuple(P.ANNOT)]
    annot = [k for k in st["kinds"] if k in P.ANNOT]
    shapes = set()
    for _, it in P.iter_items(program["top"]):
        if not P.is_sub(it) and it["k"] == "DetectorOperation":
            f = it["f"]
            shapes.add("none" if f[1] is None else "m" + ("s" if f[2] is not None else "") + ("r" if f[3] is not None else "")
                       + ("o" if (f[2] is not None and f[3] is not None and f[4] is not None) else ""))
    ctx.case(case, nontrivial=bool(unsupported) and bool(annot) and st["nesting"] > 0, classes=[
        f"unsupported={bool(unsupported)}", f"annotation={bool(annot)}", f"nesting={st['nesting']}",
        f"reps={st['n_reps_gt1'] > 0}", f"early_export={early is not None}"] + [f"detector_shape={s}" for s in sorted(shapes)])
    facts = {"kinds": st["kinds"]}
    b = exp1 = got1 = None
    partial = []

    def peek(decl, p, it):
        if len(p) == 1 and p[0] == early:
            partial.append((stim_tokens(to_stim(decl)), expected_tokens(decl.circuit_structure)))

    with ctx.lib("build + export"):
        b = P.build(program, peek=peek if early is not None else None)
        e1 = to_stim(b.circuit)
        got1 = stim_tokens(e1)
        n_meas1 = e1.num_measurements
        exp1 = expected_tokens(b.circuit.circuit_structure)
    if exp1 is None:
        return
    for got0, exp0 in partial:
        if got0 != exp0:
            ctx.fail("export-unfinished", f"export of the circuit before item {early} was added differs from its translated listing: {first_diff(exp0, got0)}", facts)
    if got1 != exp1:
        ctx.fail("export-built", f"export of the built circuit differs from its translated listing: {first_diff(exp1, got1)}", facts)
    want = program_token_multiset(program["top"])
    if multiset(got1) != want:
        missing = [k for k in want if multiset(got1).get(k, 0) < want[k]][:3]
        extra = [k for k in multiset(got1) if want.get(k, 0) < multiset(got1)[k]][:3]
        ctx.fail("export-vs-program", f"exported instructions are not the image of the operations that were added: "
                 f"missing {missing}, unexpected {extra}", facts)
    exp2 = got2 = got3 = exp3 = None
    with ctx.lib("unroll + export"):
        mod = b.circuit.apply_modifiers()
        e2 = to_stim(mod)
        got2 = stim_tokens(e2)
        n_meas2 = e2.num_measurements
        exp2 = [t for t in (translate(o) for o in mod.operations) if t is not None]
        # the object that was unrolled, exported once more: still the image of what it lists now
        got3 = stim_tokens(to_stim(b.circuit))
        exp3 = expected_tokens(b.circuit.circuit_structure)
    if exp2 is None:
        return
    if got3 != exp3:
        ctx.fail("export-again", f"second export of the same circuit object (unrolled in between) differs from its translated listing: {first_diff(exp3, got3)}", facts)
    if got2 != exp2:
        ctx.fail("export-unrolled", f"export of the unrolled circuit differs from its translated listing: {first_diff(exp2, got2)}", facts)
    if True:
        if multiset(got1) != multiset(got2):
            ctx.fail("export-multiset", f"instruction multiset changes by unrolling ({len(got1)} vs {len(got2)} instructions)", facts)
        if n_meas1 != n_meas2:
            ctx.fail("export-measurements", f"{n_meas1} measurements exported before unrolling, {n_meas2} after", facts)


def items_library(tier):
    ds = [2, 3] if tier == "quick" else [2, 3, 4]
    cyc = range(0, 7) if tier == "quick" else range(0, 10)
    for d in ds:
        for c in cyc:
            for refocus in (True, False):
                yield {"d": d, "cycles": c, "refocus": refocus}
        # the simplified constructor hands its cycle count to a repetition strategy as it is (0 cycles = count 0)
        for c in (0, 1, 3):
            yield {"d": d, "cycles": c, "refocus": True, "ctor": "simplified"}


def body_library(case, ctx):
    from qce_circuit.addon_stim.factory_manager import to_stim
    from qce_circuit.language.intrf_declarative_circuit import InitialStateContainer, InitialStateEnum
    from qce_circuit.library.repetition_code.circuit_constructors import construct_repetition_code_circuit
    from qce_circuit.library.repetition_code.circuit_constructors import construct_repetition_code_circuit_simplified
    from qce_circuit.library.repetition_code.circuit_components import RepetitionCodeDescription
    validate_table()
    if case.get("ctor") == "simplified":
        construct_repetition_code_circuit = construct_repetition_code_circuit_simplified
    d, cycles = case["d"], case["cycles"]
    ctx.case(case, nontrivial=cycles >= 2, classes=[f"d={d}", f"cycles>=3={cycles >= 3}"])
    init = InitialStateContainer.from_ordered_list([InitialStateEnum.ONE if i % 2 else InitialStateEnum.ZERO for i in range(d)])
    a = bb = exp = None
    with ctx.lib("construct + export"):
        desc = RepetitionCodeDescription.from_initial_state(init, qubit_refocusing=case["refocus"])
        c1 = construct_repetition_code_circuit(qec_cycles=cycles, description=desc, initial_state=init)
        e1 = to_stim(c1)
        a = stim_tokens(e1)
        exp = expected_tokens(c1.circuit_structure)
        mod = c1.apply_modifiers()
        e2 = to_stim(mod)
        bb = stim_tokens(e2)
        same_meas = e1.num_measurements == e2.num_measurements
    if a is None or bb is None:
        return
    if a != exp:
        ctx.fail("library-export-built", f"export differs from translated listing: {first_diff(exp, a)}")
    if a != bb:
        ctx.fail("library-export-identical", f"expanded program changes by unrolling: {first_diff(a, bb)}")
    if not same_meas:
        ctx.fail("export-measurements", "number of measurements changes by unrolling")


def parts():
    return [
        Part("programs", body, strategy=strat, quick=1200, thorough=6000),
        Part("library", body_library, items=items_library),
    ]
