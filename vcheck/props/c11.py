"""C11 - flattening keeps the operations, and for library circuits the program."""
from __future__ import annotations

from .. import programs as P
from ..harness import Part
from ..signatures import op_sig, close, fingerprint, fp_diff
from .c07 import build_library

PROPERTY_ID = "C11"
RULE = ("implicit: Hypothesis build programs without explicit relations (<= 8 items per circuit, nesting <= 3, sibling "
        "sub-circuits, all 26 kinds, all durations, optional global override); explicit: the same with explicit relations "
        "(only the multiset / no-sub-circuit / idempotence clauses are asserted there). Oracle: the multiset of listed "
        "(kind, channels, qubits, duration, tag, annotation fields) is the same before and after flatten(), "
        "composite_operations is empty afterwards, the flattened listing is causal (every reported reference is listed, "
        "and earlier), the returned circuit lists the same objects as the flattened one, and "
        "a second flatten() changes neither listing nor schedule. deep_programs: fixed long programs of k sub-circuits x m "
        "sequential gates (6x100, 3x250; thorough also 12x120, 40x50, 2x1200), same clauses. library: repetition-code circuits (d 2..4, 0..6 cycles, "
        "refocusing on/off; data qubits prepared in every one of the six initial states; built, flattened and read under non-default global duration settings (also crossed with the six initial states) including values that are not exactly representable in binary (0.7/0.1/0.1/0.3, 3e-7/2e-8/6e-8/5e-7, ...); long experiments of 30 and 45 cycles, thorough up to 200 cycles, multi-round up to 60 cycles per block), the simplified constructor, multi-round experiments and calibration circuits, modifiers "
        "applied: listing signature sequence, schedule, duration, acquisition indices (per qubit and per tag) and the "
        "exported Stim text are identical before and after flatten(). Non-trivial = nesting depth >= 2 or >= 2 sibling "
        "sub-circuits; distinct = canonical JSON.")
ASSUMPTIONS = [
    "the long cases stay below the library's documented graph depth limit (MAX_GRAPH_DEPTH = 5000 relation layers; deepest case about 3800)",
    "order and schedule preservation is claimed for modifier-applied library circuits only; generated programs assert the multiset, absence of sub-circuits and idempotence",
]


def cfg(explicit):
    return P.GenCfg(nq=4, max_items=8, max_depth=3, p_sub=30, p_rel=(40 if explicit else 0), max_reps=1, globals_=True,
                    global_zero=True, max_reg_up=3, max_total_leaves=50)


def strat_implicit():
    return P.program_strategy(cfg(False))


def strat_explicit():
    return P.program_strategy(cfg(True))


def items_deep(tier):
    """Long implicitly sequenced programs: k sub-circuits of m gates each on one qubit line - every nested graph is
    shallow (m layers), the flattened one is k*m layers deep."""
    kinds = ["Rx180", "Ry90", "Hadamard", "Identity"]
    shapes = [(6, 100), (3, 250)] if tier == "quick" else [(6, 100), (3, 250), (12, 120), (40, 50), (2, 1200)]
    for k, m in shapes:
        subs = [{"sub": {"reps": 1, "items": [{"k": kinds[(i + j) % 4], "q": [j % 2]} for j in range(m)]}} for i in range(k)]
        yield {"g": None, "dreg": {}, "top": {"reps": 1, "items": [{"k": "CPhase", "q": [0, 1]}] + subs + [{"k": "DispersiveMeasure", "q": [0], "tag": "", "reg": 0}]}}


def ms(sigs):
    out = {}
    for s in sigs:
        k = (s[0], s[1], round(s[2], 9), s[3], s[4])
        out[k] = out.get(k, 0) + 1
    return out


def body(case, ctx):
    program = case
    st = P.stats(program)
    siblings = max([sum(1 for it in c["items"] if P.is_sub(it)) for c in
                    [program["top"]] + [it["sub"] for _, it in P.iter_items(program["top"]) if P.is_sub(it)]] or [0])
    ctx.case(case, nontrivial=st["nesting"] >= 2 or siblings >= 2, classes=[
        f"nesting={st['nesting']}", f"siblings>=2={siblings >= 2}", f"explicit={st['n_explicit'] > 0}", f"global={st['global']}"])
    with P.global_override(program.get("g")):
        b = before = None
        with ctx.lib("build + list"):
            b = P.build(program)
            before = [op_sig(o) for o in b.circuit.operations]
        if before is None:
            return
        flat = after = None
        with ctx.lib("flatten"):
            flat = b.circuit.flatten()
            ops = list(flat.operations)
            after = [op_sig(o) for o in ops]
            times = [(float(o.start_time), float(o.end_time)) for o in ops]
            comps = list(flat.composite_operations)
            same_as_original = [id(o) for o in b.circuit.operations] == [id(o) for o in ops]
        if after is None:
            return
        if ms(before) != ms(after):
            missing = [k for k in ms(before) if ms(after).get(k, 0) < ms(before)[k]]
            extra = [k for k in ms(after) if ms(before).get(k, 0) < ms(after)[k]]
            ctx.fail("flatten-multiset", f"{len(before)} operations before, {len(after)} after; lost {missing[:3]}, gained {extra[:3]}")
        if comps:
            ctx.fail("flatten-sub-circuit-remains", f"{len(comps)} sub-circuit(s) remain after flatten()")
        # the flattened circuit is a circuit: its listing must still be causal (C02) - nothing before what it refers to
        pos = {id(o): i for i, o in enumerate(ops)}
        for i, o in enumerate(ops):
            ref = None
            with ctx.lib("relation of flattened operation"):
                ref = o.relation_link.reference_node
            if ref is None:
                continue
            j = pos.get(id(ref))
            if j is None:
                ctx.fail("flatten-dangling-relation", f"{after[i][0]} at position {i} of the flattened circuit refers to a {type(ref).__name__} that is not in the circuit")
            elif j >= i:
                ctx.fail("flatten-not-causal", f"{after[i][0]} at position {i} of the flattened circuit is listed before the operation it refers to (position {j})")
        if not same_as_original:
            ctx.fail("flatten-result-detached", "the circuit returned by flatten() lists other objects than the flattened circuit")
        again = None
        with ctx.lib("flatten twice"):
            flat2 = flat.flatten()
            ops2 = list(flat2.operations)
            again = [op_sig(o) for o in ops2]
            times2 = [(float(o.start_time), float(o.end_time)) for o in ops2]
            comps2 = list(flat2.composite_operations)
        if again is None:
            return
        if len(ops2) != len(ops) or any(x is not y for x, y in zip(ops, ops2)):
            ctx.fail("flatten-not-idempotent", f"second flatten() changed the listing ({len(ops)} -> {len(ops2)})")
        elif any(not (close(a[0], c[0]) and close(a[1], c[1])) for a, c in zip(times, times2)):
            i = next(i for i, (a, c) in enumerate(zip(times, times2)) if not (close(a[0], c[0]) and close(a[1], c[1])))
            ctx.fail("flatten-not-idempotent", f"second flatten() moved {after[i][0]} from {times[i]} to {times2[i]}")
        if comps2:
            ctx.fail("flatten-sub-circuit-remains", "sub-circuits after second flatten()")


def items_library(tier):
    ds = [2, 3] if tier == "quick" else [2, 3, 4]
    cyc = [0, 1, 2, 3, 4, 5] if tier == "quick" else range(0, 9)
    for d in ds:
        for c in cyc:
            yield {"ctor": "repcode", "d": d, "cycles": c}
        yield {"ctor": "simplified", "d": d, "cycles": 2}
        yield {"ctor": "simplified", "d": d, "cycles": 3, "refocus": False}
        yield {"ctor": "multi", "d": d, "rounds": [0, 2, 1] if d == 2 else [3, 0]}
        yield {"ctor": "multi", "d": d, "rounds": [4]}
    # every preparable initial state (each brings its own preparation gate kind into the nested blocks)
    six = ["ZERO", "ONE", "PLUS", "MINUS", "PLUS_I", "MINUS_I"]
    for d in ds:
        for shift in range(6):
            states = [six[(shift + 2 * i) % 6] if shift % 2 == 0 else six[(shift + i) % 6] for i in range(d)]
            yield {"ctor": "repcode", "d": d, "cycles": 2, "states": states}
            yield {"ctor": "multi", "d": d, "rounds": [1, 2], "states": states}
    # duration settings, including values that are not exactly representable (times that tie on paper differ by rounding)
    settings = [[0.7, 0.1, 0.1, 0.3], [1.1, 0.3, 0.2, 0.7], [0.3, 0.1, 0.1, 0.3], [4.0, 1.0, 2.0, 2.0], [3e-7, 2e-8, 6e-8, 5e-7]]
    if tier != "quick":
        settings += [[0.9, 0.3, 0.1, 0.1], [0.5, 0.7, 0.2, 0.3], [2.0, 1.0, 0.5, 7.0], [1.7e-6, 4e-8, 1.2e-7, 3e-7]]
    # ... crossed with the six initial states (a preparation gate whose duration follows another setting than its neighbours')
    for g in ([4.0, 1.0, 2.0, 2.0], [2.0, 3.0, 1.0, 2.0], [1.1, 0.3, 0.2, 0.7]):
        for shift in range(6):
            yield {"ctor": "repcode", "d": 3, "cycles": 2, "states": [six[(shift + 2 * i) % 6] for i in range(3)], "durations": g}
            if tier != "quick":
                yield {"ctor": "multi", "d": 3, "rounds": [2, 1], "states": [six[(shift + i) % 6] for i in range(3)], "durations": g}
    for g in settings:
        for d in (2, 3):
            yield {"ctor": "simplified", "d": d, "cycles": 2 + (d % 2), "durations": g}
            yield {"ctor": "repcode", "d": d, "cycles": 3, "durations": g}
            yield {"ctor": "multi", "d": d, "rounds": [2, 1, 3], "durations": g}
    # long experiments: the flattened circuit is one graph as deep as the whole program (about 19 relation layers per
    # QEC cycle), far deeper than any of the nested graphs it is built from
    for d, c in ([(2, 30), (3, 45)] if tier == "quick" else [(2, 30), (3, 45), (2, 90), (3, 120), (2, 200)]):
        yield {"ctor": "repcode", "d": d, "cycles": c}
    yield {"ctor": "multi", "d": 2, "rounds": [12, 20, 8] if tier == "quick" else [40, 25, 60]}
    yield {"ctor": "calibration", "d": 3, "type": "QUBIT"}
    yield {"ctor": "calibration", "d": 3, "type": "QUTRIT"}


def body_library(case, ctx):
    from qce_circuit.addon_stim.factory_manager import to_stim
    from qce_circuit.structure.intrf_acquisition_operation import AcquisitionTag
    ctx.case(case, nontrivial=True, classes=[f"ctor={case['ctor']}", f"d={case['d']}"])

    def observe(c):
        fp = fingerprint(c)
        fp["stim"] = str(to_stim(c))
        qs = sorted({s[4][0] for s in fp["sigs"] if s[0] == "DispersiveMeasure"})
        tags = sorted({s[3] for s in fp["sigs"] if s[0] == "DispersiveMeasure"})
        fp["by_qubit"] = {q: [int(x) for x in c.get_acquisition_indices(q)] for q in qs}
        fp["by_tag"] = {(q, t): [int(x) for x in c.get_acquisition_indices(AcquisitionTag(q, t))] for q in qs for t in tags}
        return fp
    before = after = None
    # (optional) global duration setting the circuit is built, flattened and read under
    with P.global_override(case.get("durations")):
        with ctx.lib("construct + unroll + observe"):
            circ = build_library(case).apply_modifiers()
            before = observe(circ)
        if before is None:
            return
        with ctx.lib("flatten + observe"):
            flat = circ.flatten()
            after = observe(flat)
            comps = list(flat.composite_operations)
    if after is None:
        return
    d = fp_diff(before, after)
    if d:
        ctx.fail("library-flatten", f"{case}: flatten() changed the circuit: {d}")
    if before["stim"] != after["stim"]:
        a, c = before["stim"].splitlines(), after["stim"].splitlines()
        i = next((i for i, (x, y) in enumerate(zip(a, c)) if x != y), min(len(a), len(c)))
        ctx.fail("library-flatten-stim", f"{case}: Stim text differs at line {i}: {a[i:i + 2]} vs {c[i:i + 2]}")
    if before["by_qubit"] != after["by_qubit"] or before["by_tag"] != after["by_tag"]:
        ctx.fail("library-flatten-indices", f"{case}: acquisition index filters differ after flatten()")
    if comps:
        ctx.fail("flatten-sub-circuit-remains", f"{len(comps)} sub-circuit(s) remain")


def parts():
    return [
        Part("implicit", body, strategy=strat_implicit, quick=900, thorough=4000),
        Part("explicit", body, strategy=strat_explicit, quick=600, thorough=3000),
        Part("deep_programs", body, items=items_deep),
        Part("library", body_library, items=items_library),
    ]
