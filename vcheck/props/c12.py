"""C12 - index kernels tile the acquisition index range without gaps or overlap.

Oracle = algebraic invariants read off the property statement (no model of the offsets themselves):

  A  consecutive kernels:  start = previous stop + 1, first start = experiment start, lengths sum to the cycle
  B  every category index of a qubit lies inside [start, stop] of the kernel it belongs to
  C  the categories of one qubit are pairwise disjoint (no index reported twice)
  D  ancilla: the categories together cover the whole cycle, except exactly one slot inside a 0-round kernel
  E  repetition r of every getter = repetition 0 + r * cycle length (and there are exactly `reps` repetitions)
  F  estimate_experiment_repetitions(dataset_size = reps * cycle) = reps
  U  an identifier that is neither data nor ancilla owns no index
"""
from __future__ import annotations

import itertools

from .. import findings
from ..harness import Part

PROPERTY_ID = "C12"
RULE = ("experiment / experiment_large: Hypothesis-generated experiment descriptions = ordered list of distinct QEC-round "
        "counts (0..12, length 1..8; large: 0..40, length 1..14; 0, 1 and 2 over-weighted), heralded on/off, calibration "
        "flag on/off, repetitions 1..6 (large 1..12), disjoint data / ancilla identifier sets of 0..5 names each and one "
        "identifier in neither set, fed to RepetitionExperimentKernel; every getter is read for every identifier and every "
        "round count / calibration state. experiment_small: the complete grid of ordered lists of 1..3 distinct counts from "
        "{0,1,2,3} x heralded x calibration flag x repetitions 1..3 (480 descriptions, exhaustive). chain: directly chained "
        "RepetitionIndexKernel / QutritCalibrationIndexKernel sequences (1..7 kernels, any order, own heralded flag each) "
        "behind a FixedIndexStrategy start of -3..40 and RelativeIndexStrategy links. Non-trivial = the rounds list (chain) "
        "has >= 3 entries and contains a 0- or 1-round block, the two special cases of the offset arithmetic; distinct = "
        "distinct canonical JSON of the generated description.")
ASSUMPTIONS = [
    "the repetition kernel describing the block with r rounds is the entry of `indexing_kernels` whose public field nr_repeated_parities equals r (round counts are distinct, as the quantifier demands)",
    "categories of one qubit = heralded(r), stabilizer-and-projected(r) for every round count r, heralded-calibration(s) and projected-calibration(s) for every state s; `projected(r)` is documented to be contained in stabilizer-and-projected(r) and is only required to be a subset of it",
    "getters of the per-cycle kind return one row per experiment repetition; the two calibration getters return the repetitions concatenated, so repetition i is the i-th equal-length slice",
    "the experiment-level `stop_index` (start + repetitions x cycle) is not part of the property statement and is not asserted",
    "dataset size handed to estimate_experiment_repetitions is repetitions x kernel_cycle_length of the kernel built from the same four description fields",
]

NAMES_DATA = ["D1", "D2", "D3", "D4", "D5", "D6"]
NAMES_ANC = ["X1", "X2", "Z1", "Z2", "Z3", "X3"]
STATES = [0, 1, 2]


# ------------------------------------------------------------------------------------------------ helpers

def _ids(names):
    from qce_circuit.connectivity.intrf_channel_identifier import QubitIDObj
    return [QubitIDObj(n) for n in names]


def _rows(arr):
    """per-cycle getter result -> list of rows of python ints (an empty 1-d array -> no rows)."""
    import numpy as np
    a = np.asarray(arr)
    if a.ndim == 1:
        return [] if a.size == 0 else [[int(x) for x in a]]
    return [[int(x) for x in row] for row in a]


def _flat(arr):
    import numpy as np
    return [int(x) for x in np.asarray(arr).ravel()]


def _inside(xs, span):
    return all(span[0] <= x <= span[1] for x in xs)


def _dups(xs):
    seen, d = set(), []
    for x in xs:
        if x in seen:
            d.append(x)
        seen.add(x)
    return d


# ------------------------------------------------------------------------------------------------ S9 predicate

@findings.predicate("c12_calibration_flag_ignored_by_kernel")
def _pred_flag(case, facts):
    """Failures of clause F whose only cause is: the kernel counts the calibration block although the flag is off,
    while the estimate leaves it out.  Requires flag off, and the numbers must be exactly those this root cause gives."""
    if not isinstance(case, dict) or case.get("calibration") is not False:
        return False
    if facts.get("clause") != "F":
        return False
    cal_len = 3 * (2 if case.get("heralded") else 1)
    cycle, reps = facts.get("cycle"), facts.get("reps")
    if not isinstance(cycle, int) or not isinstance(reps, int) or cycle - cal_len < 1:
        return False
    short = cycle - cal_len                       # cycle length the estimate computes
    size = reps * cycle
    if "exception" in facts:                      # its internal consistency assertion fired
        return facts.get("exception") == "AssertionError" and size % short != 0
    return size % short == 0 and facts.get("got") == size // short


# ------------------------------------------------------------------------------------------------ experiment kernel

def _classes_experiment(case):
    rounds = case["rounds"]
    return [
        f"heralded={case['heralded']}", f"calibration={case['calibration']}",
        f"has0={0 in rounds}", f"has1={1 in rounds}", f"len>=3={len(rounds) >= 3}", f"reps>1={case['reps'] > 1}",
        f"zero_first={rounds[0] == 0}", f"zero_last={rounds[-1] == 0}",
        "n_anc=" + ("2+" if len(case["ancilla"]) >= 2 else str(len(case["ancilla"]))),
        "n_data=" + ("1+" if case["data"] else "0"),
    ]


def body_experiment(case, ctx):
    from qce_circuit.structure.acquisition_indexing.kernel_repetition_code import RepetitionExperimentKernel
    from qce_circuit.structure.acquisition_indexing.intrf_stabilizer_index_kernel import StateKey

    rounds, her, cal, reps = list(case["rounds"]), case["heralded"], case["calibration"], case["reps"]
    ctx.case(case, nontrivial=len(rounds) >= 3 and (0 in rounds or 1 in rounds), classes=_classes_experiment(case))
    data, anc, unk = _ids(case["data"]), _ids(case["ancilla"]), _ids([case["unknown"]])[0]

    kernel = None
    spans, counts, cycle, start = [], [], None, None
    with ctx.lib("RepetitionExperimentKernel construction / kernel list"):
        kernel = RepetitionExperimentKernel(
            rounds=list(rounds), heralded_initialization=her, qutrit_calibration_points=cal,
            involved_data_qubit_ids=list(data), involved_ancilla_qubit_ids=list(anc), experiment_repetitions=reps)
        sub = list(kernel.indexing_kernels)
        spans = [(int(s.start_index), int(s.stop_index)) for s in sub]
        lengths = [int(s.kernel_length) for s in sub]
        counts = [getattr(s, "nr_repeated_parities", None) for s in sub]
        cycle, start = int(kernel.kernel_cycle_length), int(kernel.start_index)
    if kernel is None or cycle is None:
        return

    # ---- A: contiguity, no overlap, lengths sum to the cycle
    if [c for c in counts if c is not None] != rounds:
        ctx.fail("kernel-list", f"rounds {rounds}: repetition kernels describe counts {counts}")
        return
    if spans[0][0] != start:
        ctx.fail("first-start", f"rounds {rounds}: first kernel starts at {spans[0][0]}, experiment at {start}")
    for i in range(len(spans)):
        if spans[i][1] < spans[i][0] - 1:
            ctx.fail("negative-length", f"rounds {rounds} heralded={her}: kernel {i} (count {counts[i]}) spans {spans[i]}")
        if lengths[i] != spans[i][1] - spans[i][0] + 1:
            ctx.fail("kernel-length", f"kernel {i} spans {spans[i]} but kernel_length={lengths[i]}")
        if i and spans[i][0] != spans[i - 1][1] + 1:
            ctx.fail("contiguity", f"rounds {rounds} heralded={her}: kernel {i} (count {counts[i]}) starts at {spans[i][0]}, "
                                   f"previous kernel stops at {spans[i - 1][1]}")
    if sum(s[1] - s[0] + 1 for s in spans) != cycle:
        ctx.fail("cycle-length", f"rounds {rounds} heralded={her} calibration={cal}: kernel lengths "
                                 f"{[s[1] - s[0] + 1 for s in spans]} do not sum to kernel_cycle_length={cycle}")
    span_of = {c: s for c, s in zip(counts, spans) if c is not None}
    cal_spans = [s for c, s in zip(counts, spans) if c is None]
    full = set(range(start, start + cycle))

    # ---- B..E, U per identifier
    for role, q, name in ([("data", q, n) for q, n in zip(data, case["data"])]
                          + [("ancilla", q, n) for q, n in zip(anc, case["ancilla"])] + [("unknown", unk, case["unknown"])]):
        got = {}
        with ctx.lib(f"getters for {role} {name}"):
            for r in rounds:
                got[("heralded", r)] = _rows(kernel.get_heralded_cycle_acquisition_indices(q, r))
                got[("stab+proj", r)] = _rows(kernel.get_stabilizer_and_projected_cycle_acquisition_indices(q, r))
                got[("projected", r)] = _rows(kernel.get_projected_cycle_acquisition_indices(q, r))
            for s in STATES:
                got[("cal-heralded", s)] = _flat(kernel.get_heralded_calibration_acquisition_indices(q, StateKey(s)))
                got[("cal", s)] = _flat(kernel.get_projected_calibration_acquisition_indices(q, StateKey(s)))
        if len(got) != 3 * len(rounds) + 6:
            continue
        first = {}      # category -> indices of repetition 0
        for key, val in got.items():
            where = f"{role} {name}, {key[0]}({key[1]}), rounds {rounds} heralded={her} reps={reps}"
            if key[0].startswith("cal"):
                # E (concatenated form)
                if len(val) % reps:
                    ctx.fail("translate-shape", f"{where}: {len(val)} indices for {reps} repetitions: {val}")
                    first[key] = val
                    continue
                m = len(val) // reps
                first[key] = val[:m]
                exp = [x + i * cycle for i in range(reps) for x in val[:m]]
                if val != exp:
                    ctx.fail("translate", f"{where}: {val}, expected repetition 0 + i*{cycle} = {exp}")
            else:
                if len(val) != reps:
                    ctx.fail("translate-shape", f"{where}: {len(val)} rows for {reps} repetitions: {val}")
                first[key] = val[0] if val else []
                for i, row in enumerate(val):
                    exp = [x + i * cycle for x in first[key]]
                    if row != exp:
                        ctx.fail("translate", f"{where}: repetition {i} is {row}, expected repetition 0 + {i}*{cycle} = {exp}")
        if role == "unknown":
            # U
            owned = {f"{k[0]}({k[1]})": v for k, v in got.items() if (v if k[0].startswith("cal") else [x for row in v for x in row])}
            if owned:
                ctx.fail("unknown-id", f"identifier {name} is neither data nor ancilla but owns indices {owned}")
            continue
        # B: inside the kernel the category belongs to
        for key, idx in first.items():
            if key[0].startswith("cal"):
                ok = bool(cal_spans) and _inside(idx, cal_spans[0]) if idx else True
                span = cal_spans[0] if cal_spans else None
            else:
                span = span_of[key[1]]
                ok = _inside(idx, span)
            if not ok:
                ctx.fail("outside-kernel", f"{role} {name}: {key[0]}({key[1]}) = {idx} leaves its kernel {span} "
                                           f"(rounds {rounds} heralded={her})")
        # C: pairwise disjoint (projected is a documented part of stab+proj, only required to be inside it)
        for r in rounds:
            if not set(first[("projected", r)]) <= set(first[("stab+proj", r)]):
                ctx.fail("projected-not-in-stab+proj", f"{role} {name} count {r}: projected {first[('projected', r)]} "
                                                       f"not within {first[('stab+proj', r)]}")
            if _dups(first[("projected", r)]):
                ctx.fail("overlap", f"{role} {name} count {r}: projected lists an index twice {first[('projected', r)]}")
        cats = [(k, v) for k, v in first.items() if k[0] != "projected"]
        flat = [x for _, v in cats for x in v]
        if _dups(flat):
            d = sorted(set(_dups(flat)))
            owners = {x: [f"{k[0]}({k[1]})" for k, v in cats if x in v] for x in d}
            ctx.fail("overlap", f"{role} {name}, rounds {rounds} heralded={her}: indices reported by more than one "
                                f"category: {owners}")
        # D: ancilla coverage
        if role == "ancilla":
            union = set(flat)
            missing, extra = sorted(full - union), sorted(union - full)
            if extra:
                ctx.fail("outside-cycle", f"ancilla {name}: indices {extra} outside cycle [{start}, {start + cycle - 1}]")
            if 0 in rounds:
                z = span_of[0]
                if len(missing) != 1 or not (z[0] <= missing[0] <= z[1]):
                    ctx.fail("coverage", f"ancilla {name}, rounds {rounds} heralded={her}: uncovered slots {missing}; expected "
                                         f"exactly one, inside the 0-round kernel {z}")
            elif missing:
                ctx.fail("coverage", f"ancilla {name}, rounds {rounds} heralded={her}: uncovered slots {missing} without a "
                                     f"0-round block")

    # ---- F: the estimate inverts dataset size = repetitions x cycle length
    size = reps * cycle
    est = None
    try:
        est = RepetitionExperimentKernel.estimate_experiment_repetitions(
            rounds=list(rounds), heralded_initialization=her, qutrit_calibration_points=cal, dataset_size=size)
    except Exception as e:  # library exception on an in-domain input
        ctx.fail(f"raised:{type(e).__name__}", f"estimate_experiment_repetitions(rounds={rounds}, heralded={her}, "
                 f"calibration={cal}, dataset_size={size} = {reps} x {cycle}) raised {type(e).__name__}: {str(e)[:200]}",
                 {"clause": "F", "exception": type(e).__name__, "cycle": cycle, "reps": reps})
        return
    if est != reps:
        ctx.fail("estimate", f"estimate_experiment_repetitions(rounds={rounds}, heralded={her}, calibration={cal}, "
                             f"dataset_size={size}) = {est}; the kernel built from the same description has cycle "
                             f"{cycle} x {reps} repetitions",
                 {"clause": "F", "got": int(est), "cycle": cycle, "reps": reps})
    # the same clause for a repetition count far beyond what a kernel can be enumerated for (exact integer arithmetic)
    big = case.get("big_reps")
    if big:
        est = None
        try:
            est = RepetitionExperimentKernel.estimate_experiment_repetitions(
                rounds=list(rounds), heralded_initialization=her, qutrit_calibration_points=cal, dataset_size=big * cycle)
        except Exception as e:
            ctx.fail(f"raised:{type(e).__name__}", f"estimate_experiment_repetitions(rounds={rounds}, heralded={her}, calibration={cal}, "
                     f"dataset_size={big * cycle} = {big} x {cycle}) raised {type(e).__name__}: {str(e)[:200]}",
                     {"clause": "F", "exception": type(e).__name__, "cycle": cycle, "reps": big, "big": True})
            return
        if est != big:
            ctx.fail("estimate", f"estimate_experiment_repetitions(..., dataset_size={big} x {cycle}) = {est}",
                     {"clause": "F", "got": int(est), "cycle": cycle, "reps": big, "big": True})


def _strat_experiment(max_count, max_len, max_reps):
    from hypothesis import strategies as st
    count = st.one_of(st.sampled_from([0, 1, 2]), st.integers(0, max_count), st.integers(0, 5))
    def some(pool):   # mostly non-empty, sometimes empty
        return st.one_of(st.lists(st.sampled_from(pool), unique=True, min_size=1, max_size=5),
                         st.lists(st.sampled_from(pool), unique=True, min_size=1, max_size=2), st.lists(st.sampled_from(pool), unique=True, max_size=1))
    names = st.tuples(some(NAMES_DATA), some(NAMES_ANC))
    return st.fixed_dictionaries({
        "rounds": st.lists(count, unique=True, min_size=1, max_size=max_len),
        "heralded": st.booleans(),
        "calibration": st.booleans(),
        "reps": st.integers(1, max_reps),
        "ids": names,
        "unknown": st.sampled_from(["Q", "D7", "X4", "DummyID"]),
        # a repetition count for the estimate alone (datasets far larger than any kernel that is enumerated)
        "big_reps": st.none() | st.integers(10 ** 3, 10 ** 7) | st.integers(2 ** 52, 2 ** 62) | st.sampled_from([2 ** 53 + 1, 10 ** 17 + 1, 3002399751580331]),
    }).map(lambda d: {"rounds": d["rounds"], "heralded": d["heralded"], "calibration": d["calibration"], "reps": d["reps"],
                      "data": d["ids"][0], "ancilla": d["ids"][1], "unknown": d["unknown"], "big_reps": d["big_reps"]})


def strat_experiment():
    return _strat_experiment(12, 8, 6)


def strat_experiment_large():
    return _strat_experiment(40, 14, 12)


def items_experiment_small(tier):
    for n in (1, 2, 3):
        for rounds in itertools.permutations([0, 1, 2, 3], n):
            for her in (False, True):
                for cal in (True, False):
                    for reps in (1, 2, 3):
                        yield {"rounds": list(rounds), "heralded": her, "calibration": cal, "reps": reps,
                               "data": ["D1", "D2"], "ancilla": ["X1"], "unknown": "DummyID"}


# ------------------------------------------------------------------------------------------------ direct chains

def body_chain(case, ctx):
    from qce_circuit.structure.acquisition_indexing.kernel_repetition_code import RepetitionIndexKernel
    from qce_circuit.structure.acquisition_indexing.kernel_calibration import QutritCalibrationIndexKernel
    from qce_circuit.structure.acquisition_indexing.intrf_index_strategy import FixedIndexStrategy, RelativeIndexStrategy

    specs = case["kernels"]
    reps_counts = [s["n"] for s in specs if s["t"] == "rep"]
    ctx.case(case, nontrivial=len(specs) >= 3 and (0 in reps_counts or 1 in reps_counts), classes=[
        f"chain:start0={case['start'] == 0}", f"chain:has_cal={any(s['t'] == 'cal' for s in specs)}",
        f"chain:cal_not_last={any(s['t'] == 'cal' for s in specs[:-1])}", f"chain:has0={0 in reps_counts}",
        f"chain:has1={1 in reps_counts}", f"chain:mixed_heralded={len({s['h'] for s in specs}) == 2}",
        f"chain:len>=3={len(specs) >= 3}"])
    data, anc, unk = _ids(case["data"]), _ids(case["ancilla"]), _ids([case["unknown"]])[0]

    kernels, spans = [], []
    with ctx.lib("building the kernel chain"):
        for s in specs:
            strategy = FixedIndexStrategy(index=case["start"]) if not kernels else RelativeIndexStrategy(reference_index_kernel=kernels[-1])
            if s["t"] == "rep":
                k = RepetitionIndexKernel(nr_repeated_parities=s["n"], heralded_initialization=s["h"], index_offset_strategy=strategy,
                                          involved_data_qubit_ids=list(data), involved_ancilla_qubit_ids=list(anc))
            else:
                k = QutritCalibrationIndexKernel(heralded_initialization=s["h"], index_offset_strategy=strategy,
                                                 involved_qubit_ids=list(data) + list(anc))
            kernels.append(k)
        spans = [(int(k.start_index), int(k.stop_index)) for k in kernels]
    if len(spans) != len(specs):
        return
    # A
    if spans[0][0] != case["start"]:
        ctx.fail("first-start", f"first kernel starts at {spans[0][0]}, fixed strategy says {case['start']}")
    for i in range(len(spans)):
        if spans[i][1] < spans[i][0] - 1:
            ctx.fail("negative-length", f"kernel {i} {specs[i]} spans {spans[i]}")
        if i and spans[i][0] != spans[i - 1][1] + 1:
            ctx.fail("contiguity", f"kernel {i} {specs[i]} starts at {spans[i][0]}, previous stops at {spans[i - 1][1]}")
    # B, C, D, U per kernel and identifier
    for i, (k, s, span) in enumerate(zip(kernels, specs, spans)):
        for role, q, name in ([("data", q, n) for q, n in zip(data, case["data"])]
                              + [("ancilla", q, n) for q, n in zip(anc, case["ancilla"])] + [("unknown", unk, case["unknown"])]):
            cats, contains = {}, None
            with ctx.lib(f"getters of kernel {i} {s} for {role} {name}"):
                if s["t"] == "rep":
                    cats["heralded"] = [int(x) for x in k.get_heralded_measurement_index(q)]
                    cats["stabilizer"] = [int(x) for x in k.get_ordered_stabilizer_measurement_indices(q)]
                    cats["final"] = [int(x) for x in k.get_final_measurement_index(q)]
                else:
                    for st_ in STATES:
                        cats[f"cal-heralded{st_}"] = [int(x) for x in getattr(k, f"get_heralded_state_{st_}_measurement_index")(q)]
                        cats[f"cal{st_}"] = [int(x) for x in getattr(k, f"get_state_{st_}_measurement_index")(q)]
                contains = [int(x) for x in k.contains(q)]
            if contains is None:
                continue
            where = f"kernel {i} {s} span {span}, {role} {name}"
            flat = [x for v in cats.values() for x in v]
            if role == "unknown":
                if flat or contains:
                    ctx.fail("unknown-id", f"{where}: owns {cats}, contains {contains}")
                continue
            for c, v in cats.items():
                if not _inside(v, span):
                    ctx.fail("outside-kernel", f"{where}: {c} = {v}")
            if not _inside(contains, span):
                ctx.fail("outside-kernel", f"{where}: contains() = {contains}")
            if _dups(flat):
                ctx.fail("overlap", f"{where}: categories overlap: {cats}")
            if _dups(contains):
                ctx.fail("overlap", f"{where}: contains() lists an index twice: {contains}")
            if role == "ancilla":
                full = set(range(span[0], span[1] + 1))
                for label, union in (("categories", set(flat)), ("contains()", set(contains))):
                    missing = sorted(full - union)
                    want = 1 if (s["t"] == "rep" and s["n"] == 0) else 0
                    if len(missing) != want:
                        ctx.fail("coverage", f"{where}: {label} leave {missing} uncovered, expected {want} uncovered slot(s)")


def items_general_calibration(tier):
    starts = [0, 1, 7] if tier == "quick" else [-3, 0, 1, 2, 7, 40]
    reps = [1, 2, 3, 5] if tier == "quick" else [1, 2, 3, 4, 5, 8, 13]
    for her in (False, True):
        for f_state in (False, True):
            for r in reps:
                for start in starts:
                    yield {"heralded": her, "f_state": f_state, "reps": r, "start": start}


def body_general_calibration(case, ctx):
    """GeneralCalibrationIndexKernel: per repetition one (optional heralded, calibration) acquisition pair per state."""
    from qce_circuit.structure.acquisition_indexing.kernel_calibration import GeneralCalibrationIndexKernel
    from qce_circuit.structure.acquisition_indexing.intrf_index_strategy import FixedIndexStrategy
    her, f_state, reps, start = case["heralded"], case["f_state"], case["reps"], case["start"]
    ctx.case(case, nontrivial=reps >= 2, classes=[f"heralded={her}", f"f_state={f_state}", f"reps>=2={reps >= 2}"])
    got = None
    with ctx.lib("GeneralCalibrationIndexKernel"):
        k = GeneralCalibrationIndexKernel(index_offset_strategy=FixedIndexStrategy(index=start), heralded_initialization=her,
                                          f_state=f_state, repetitions=reps)
        states = list(k.contained_states)
        got = {"start": int(k.start_index), "stop": int(k.stop_index), "cycle": int(k.cycle_length),
               "cal": {st.name: [int(i) for i in k.get_calibration_state_measurement_index(st)] for st in states},
               "her": {st.name: [int(i) for i in k.get_heralded_state_measurement_index(st)] for st in states},
               "n_states": len(states)}
    if got is None:
        return
    n = 3 if f_state else 2
    per = 2 if her else 1
    cycle = n * per
    span = list(range(start, start + cycle * reps))
    if (got["start"], got["stop"], got["cycle"], got["n_states"]) != (start, start + cycle * reps - 1, cycle, n):
        ctx.fail("general-calibration-span", f"{case}: start/stop/cycle/states = {got['start']}/{got['stop']}/{got['cycle']}/{got['n_states']}, "
                 f"expected {start}/{start + cycle * reps - 1}/{cycle}/{n}")
        return
    names = sorted(got["cal"])
    exp_cal = {name: [start + r * cycle + j * per + (per - 1) for r in range(reps)] for j, name in enumerate(names)}
    exp_her = {name: ([start + r * cycle + j * per for r in range(reps)] if her else []) for j, name in enumerate(names)}
    if got["cal"] != exp_cal or got["her"] != exp_her:
        ctx.fail("general-calibration-indices", f"{case}: calibration indices {got['cal']} heralded {got['her']}; the kernel "
                 f"[{start}, {start + cycle * reps - 1}] holds per repetition one {'(heralded, calibration) pair' if her else 'calibration acquisition'} "
                 f"per state in state order: calibration {exp_cal}, heralded {exp_her}")
        return
    allidx = sorted(i for d in (got["cal"], got["her"]) for v in d.values() for i in v)
    if allidx != span:
        ctx.fail("general-calibration-tiling", f"{case}: categories cover {allidx}, kernel is {span}")


def strat_chain():
    from hypothesis import strategies as st
    rep = st.fixed_dictionaries({"t": st.just("rep"), "n": st.one_of(st.sampled_from([0, 1, 2]), st.integers(0, 12)), "h": st.booleans()})
    cal = st.fixed_dictionaries({"t": st.just("cal"), "h": st.booleans()})
    return st.fixed_dictionaries({
        "start": st.one_of(st.just(0), st.integers(-3, 40)),
        "kernels": st.lists(st.one_of(rep, rep, rep, cal), min_size=1, max_size=7),
        "data": st.lists(st.sampled_from(NAMES_DATA), unique=True, max_size=3),
        "ancilla": st.lists(st.sampled_from(NAMES_ANC), unique=True, min_size=1, max_size=3),
        "unknown": st.sampled_from(["Q", "D7", "DummyID"]),
    })


def parts():
    return [
        Part("experiment_small", body_experiment, items=items_experiment_small, exhaustive=True),
        Part("experiment", body_experiment, strategy=strat_experiment, quick=2500, thorough=12000),
        Part("experiment_large", body_experiment, strategy=strat_experiment_large, quick=0, thorough=4000),
        Part("general_calibration", body_general_calibration, items=items_general_calibration, exhaustive=True),
        Part("chain", body_chain, strategy=strat_chain, quick=1500, thorough=8000),
    ]
