"""C02 - nothing lost, nothing duplicated: the operation listing is complete, causal and stable."""
from __future__ import annotations

from .. import model as M
from .. import observe as O
from .. import programs as P
from ..harness import Part
from ..signatures import op_sig, item_sig, close

PROPERTY_ID = "C02"
RULE = ("Hypothesis build programs (<= 9 items per circuit, nesting <= 3, 4 qubits) over all 26 operation kinds with "
        "branching relation graphs (explicit relations of all types on ~45 % of items, several items referencing the "
        "same earlier item), shared RelationLink objects (equal-valued operations), siblings at equal depth and empty "
        "sub-circuits; interpreted through DeclarativeCircuit.add. Oracle: the listing holds exactly one entry per added "
        "leaf (signature multiset = program leaves: kind, channels, qubits, duration, tag, annotation fields), no object "
        "twice, top-level operations are the very objects passed to add, add returns its argument for operations and the "
        "nested copy for sub-circuits, every sub-circuit's content is a contiguous run equal to that sub-circuit's own "
        "listing, no operation precedes the operation (or any operation of the sub-circuit) its relation refers to, two "
        "consecutive listings are the identical object sequence, get_last_entry() is what the last add returned; in 3 of 5 "
        "cases the listing is also read while the circuit is being built (before every add / only before sub-circuit adds "
        "/ only before operation adds) and must then hold one entry per leaf added so far, the final checks being unchanged. "
        "Non-trivial = >= 2 items at one relation depth of one circuit or >= 1 nested sub-circuit; distinct = canonical "
        "JSON of (program, peek mode).")
ASSUMPTIONS = [
    "relation depth stays far below the documented graph depth limit (generated circuits have <= 60 operations)",
    "causality is judged from the relation each listed operation reports through the public relation_link",
]


def cfg():
    return P.GenCfg(nq=4, max_items=9, max_depth=3, p_sub=22, p_rel=45, max_reps=1, globals_=True, global_zero=True, entry_points=True,
                    p_share=30, max_total_leaves=60, p_dangling=8)


PEEKS = ["none", "none", "every", "before_sub", "before_op"]


def strat():
    from hypothesis import strategies as st
    return st.fixed_dictionaries({"program": P.program_strategy(cfg()), "peek": st.sampled_from(PEEKS)})


def _leaves(circ):
    return sum(_leaves(it["sub"]) if P.is_sub(it) else 1 for it in circ["items"])


def body(case, ctx):
    # (older replay files hold the bare program)
    program, peek_mode = (case["program"], case["peek"]) if "program" in case else (case, "none")
    st = P.stats(program)
    g, dreg = program.get("g"), program.get("dreg", {})
    root = M.build(program)
    M.resolve(root)
    siblings = False
    for mc in [root] + [n.sub for n in root.all_nodes() if n.sub is not None]:
        depths = [n.depth for n in mc.nodes]
        if len(depths) != len(set(depths)):
            siblings = True
    ctx.case(case, nontrivial=siblings or st["n_subs"] > 0, classes=[
        f"siblings={siblings}", f"nesting={st['nesting']}", f"shared_link={st['shared_link']}",
        f"empty_sub={any(P.is_sub(it) and not it['sub']['items'] for _, it in P.iter_items(program['top']))}",
        f"leaves>=10={st['n_leaves'] >= 10}", f"peek={peek_mode}"])
    peeks = []

    def peek(decl, p, it):
        # a user reading the listing while building: it must hold one entry per leaf added to this circuit so far
        if peek_mode == "every" or (peek_mode == "before_sub") == bool(P.is_sub(it)):
            circ = program["top"]
            for i in p[:-1]:
                circ = circ["items"][i]["sub"]
            exp_n = sum(_leaves(x["sub"]) if P.is_sub(x) else 1 for x in circ["items"][:p[-1]])
            peeks.append((list(p), exp_n, len(decl.operations)))

    with P.global_override(g):
        b = None
        with ctx.lib("build"):
            b = P.build(program, peek=None if peek_mode == "none" else peek)
        for p, exp_n, got_n in peeks:
            if exp_n != got_n:
                ctx.fail("listing-while-building", f"before adding item {p} the circuit listed {got_n} operations, {exp_n} leaves were added")
        if b is None:
            return
        # return value of add
        for p, it in P.iter_items(program["top"]):
            if not P.is_sub(it) and b.handles[p] is not b.passed[p]:
                ctx.fail("add-return", f"add() did not return the operation it was given (item {list(p)})")
            if P.is_sub(it) and (b.handles[p] is b.passed[p] or b.handles[p] is b.passed[p].circuit_structure
                                 or not O.is_composite(b.handles[p])):
                ctx.fail("add-return", f"add() of a sub-circuit did not return a nested copy (item {list(p)})")
        ops = ops_again = None
        with ctx.lib("operations"):
            ops = list(b.circuit.operations)
            ops_again = list(b.circuit.operations)
        if ops is None or ops_again is None:
            return
        # stability
        if len(ops) != len(ops_again) or any(x is not y for x, y in zip(ops, ops_again)):
            ctx.fail("unstable", f"two consecutive listings differ ({len(ops)} vs {len(ops_again)} entries or other order)")
        # no duplicates
        ids = [id(o) for o in ops]
        if len(set(ids)) != len(ids):
            ctx.fail("duplicate", "an operation object is listed more than once")
        # completeness: signature multiset
        exp = O.leaf_sig_multiset(root, g, dreg)
        got = None
        with ctx.lib("signatures"):
            got = O.impl_sig_multiset(ops)
        if got is not None:
            def norm(ms):
                return sorted((repr(k[:2]), round(k[2], 9), repr(k[3:]), v) for k, v in ms.items())
            if norm(exp) != norm(got):
                missing = [k for k in norm(exp) if k not in norm(got)]
                extra = [k for k in norm(got) if k not in norm(exp)]
                ctx.fail("multiset", f"listing has {len(ops)} entries for {st['n_leaves']} added leaves; "
                         f"missing {missing[:3]} extra {extra[:3]}")
        # top-level identity
        pos = {id(o): i for i, o in enumerate(ops)}
        for i, it in enumerate(program["top"]["items"]):
            if not P.is_sub(it) and id(b.passed[(i,)]) not in pos:
                ctx.fail("top-level-identity", f"top-level operation #{i} ({it['k']}) passed to add is not listed")
        # sub-circuit contiguity
        comps = None
        with ctx.lib("composite_operations"):
            comps = list(b.circuit.composite_operations)
        if comps is None:
            return
        if len(comps) != st["n_subs"]:
            ctx.fail("sub-count", f"{st['n_subs']} sub-circuits added, {len(comps)} reported")
        for c in comps:
            content = None
            with ctx.lib("sub listing"):
                content = list(c.decomposed_operations())
            if not content:
                continue
            idx = [pos.get(id(o)) for o in content]
            if any(i is None for i in idx):
                ctx.fail("sub-content-missing", "a sub-circuit lists an operation the circuit does not")
                continue
            if idx != list(range(idx[0], idx[0] + len(idx))):
                ctx.fail("sub-not-contiguous", f"content of a sub-circuit sits at listing positions {idx}")
        top_handles = [b.handles[(i,)] for i, it in enumerate(program["top"]["items"]) if P.is_sub(it)]
        if any(not any(h is c for c in comps) for h in top_handles):
            ctx.fail("sub-handle", "a top-level sub-circuit returned by add is not among composite_operations")
        # causality
        comp_last = {}
        for c in comps:
            with ctx.lib("sub listing"):
                idx = [pos[id(o)] for o in c.decomposed_operations() if id(o) in pos]
                comp_last[id(c)] = max(idx) if idx else -1
        for i, o in enumerate(ops):
            ref = None
            with ctx.lib("relation_link"):
                ref = o.relation_link.reference_node
            if ref is None:
                continue
            if O.is_composite(ref):
                last = comp_last.get(id(ref))
                if last is None:
                    ctx.fail("dangling-reference", f"listed {type(o).__name__} refers to a sub-circuit that is not in the circuit")
                elif last >= i:
                    ctx.fail("causality", f"{type(o).__name__} at position {i} precedes content (position {last}) of the sub-circuit it refers to")
            else:
                j = pos.get(id(ref))
                if j is None:
                    ctx.fail("dangling-reference", f"listed {type(o).__name__} refers to an operation that is not listed")
                elif j >= i:
                    ctx.fail("causality", f"{type(o).__name__} at position {i} is listed before its reference at position {j}")
        # get_last_entry
        n_top = len(program["top"]["items"])
        from qce_circuit.utilities.custom_exceptions import NoReferenceOperationException
        if n_top:
            last = None
            with ctx.lib("get_last_entry"):
                last = b.circuit.get_last_entry()
            if last is not None and last is not b.handles[(n_top - 1,)]:
                ctx.fail("last-entry", "get_last_entry() is not the value the last add returned")
        else:
            try:
                b.circuit.get_last_entry()
                ctx.fail("last-entry", "get_last_entry() on an empty circuit did not raise")
            except NoReferenceOperationException:
                pass
            except Exception as e:     # noqa: BLE001
                ctx.fail("last-entry", f"get_last_entry() on an empty circuit raised {type(e).__name__}")


def parts():
    return [Part("programs", body, strategy=strat, quick=2500, thorough=12000, fuzz_quick=0, fuzz_thorough=8000)]
