"""C13 - index kernels agree with the multi-round experiment circuit they describe.

Differential oracle between two independent encodings of one experiment layout:

  circuit side  construct_repetition_code_multi_round_circuit(rounds, description, initial state); for every ancilla
                the per-qubit acquisition indices carrying the tags 'heralded' / 'parity' / 'final'
  kernel side   RepetitionExperimentKernel(rounds, heralded on, qutrit calibration on, data / ancilla ids of the same
                description, one experiment repetition): heralded-cycle + heralded-calibration getters,
                stabilizer-and-projected getter, projected-calibration getter

  count        number of acquisitions of the ancilla = kernel_cycle_length
  heralded     circuit 'heralded' indices = kernel heralded(r) for all r  +  heralded-calibration(s) for all s
  parity       circuit 'parity' indices   = kernel stabilizer-and-projected(r) for all r
  final        circuit 'final' indices    = kernel projected-calibration(s) for all s, plus - only when the rounds list
               contains 0 - exactly one more index, which lies in the 0-round kernel and which no kernel getter reports
  association  the block built from rounds[k] is the k-th block of the circuit: its heralded / parity indices are the ones
               the kernel returns for cycle_stabilizer_count = rounds[k]; the calibration block in which the circuit
               prepares state s (no pulse / Rx180 / Rx180 + Rx180ef before the final measurement) carries the indices the
               kernel returns for state s
"""
from __future__ import annotations

import itertools

from ..harness import Part

PROPERTY_ID = "C13"
RULE = ("Kernel and circuit are built from ONE description object in either order (kernel first / circuit first), the kernel "
        "receiving either the description's own identifier lists or copies. " +
        "grid: every ordered list of 1..2 distinct round counts from {0,1,2,3} x all 4 computational data states, distance 2, "
        "chain description (64 experiments, exhaustive for that grid) plus every single-count list [0]..[8] at distance 3 "
        "(thorough tier). long_blocks: fixed lists with blocks of 9-30 (thorough: 64) rounds at distance 2 (chain) and 3 (Surface-17 sub-chain). sampled: Hypothesis-generated experiments = ordered list of 1..4 distinct counts from 0..6 (0 and 1 "
        "over-weighted) x distance 2..4 x computational data-qubit states x optional computational ancilla states x "
        "description from_chain / from_initial_state / from_connectivity(contiguous sub-chain of the Surface-17 "
        "Repetition9Code, either direction, optionally with an explicit qubit-to-channel map of distinct indices 0..16) x refocusing on/off. sampled_large (thorough tier only): lists of 1..5 counts "
        "from 0..8, distance 2..5. Non-trivial = >= 2 rounds entries including a 0- or 1-round block (where circuit and "
        "kernel special-case their layout); distinct = distinct canonical JSON of the generated experiment.")
ASSUMPTIONS = [
    "the kernel is built as the property's observe_at says: heralded_initialization=True, qutrit_calibration_points=True, experiment_repetitions=1, data / ancilla ids taken from the same description object the circuit was built from",
    "per-ancilla indices of the circuit are read with get_acquisition_indices(AcquisitionTag(circuit index of the ancilla, tag)) (positional call) and get_acquisition_indices(circuit index)",
    "blocks appear in the circuit in the order of the rounds list (the constructor iterates over it), so the k-th 'heralded' index of an ancilla opens the block with rounds[k] rounds and the last three open the calibration blocks",
    "the state a calibration block prepares is recognised from the pulses on the ancilla between its heralded and final measurement (none -> 0, Rx180 -> 1, Rx180 + Rx180ef -> 2); an unrecognised pattern is noted and only the un-associated comparison is made",
    "data qubits are not compared (the property speaks per ancilla)",
]

S17_CHAIN = ["D1", "X1", "D2", "X2", "D3", "Z2", "D6", "Z4", "D5", "Z1", "D4", "Z3", "D7", "X3", "D8", "X4", "D9"]
STATES = [0, 1, 2]


def _ints(arr):
    import numpy as np
    return [int(x) for x in np.asarray(arr).ravel()]


def _build(case):
    """-> (description, initial_state) through the public constructors only."""
    from qce_circuit.language import InitialStateContainer, InitialStateEnum
    from qce_circuit.library.repetition_code.circuit_components import RepetitionCodeDescription
    from qce_circuit.connectivity.intrf_channel_identifier import QubitIDObj
    enum = {"0": InitialStateEnum.ZERO, "1": InitialStateEnum.ONE}
    d = case["distance"]
    anc = case.get("ancilla_states")
    init = InitialStateContainer.from_ordered_list(
        [enum[c] for c in case["data_states"]], None if anc is None else [enum[c] for c in anc])
    kind = case["desc"]
    if kind == "chain":
        desc = RepetitionCodeDescription.from_chain(length=2 * d - 1, qubit_refocusing=case["refocus"])
    elif kind == "initial_state":
        desc = RepetitionCodeDescription.from_initial_state(initial_state=init, qubit_refocusing=case["refocus"])
    else:
        from qce_circuit.library.repetition_code.repetition_code_connectivity import Repetition9Code
        names = S17_CHAIN[2 * case["offset"]: 2 * case["offset"] + 2 * d - 1]
        if case.get("reverse"):
            names = names[::-1]
        involved = [QubitIDObj(n) for n in names]
        index_map = None if case.get("index_map") is None else {q: i for q, i in zip(involved, case["index_map"])}
        desc = RepetitionCodeDescription.from_connectivity(
            involved_qubit_ids=involved, connectivity=Repetition9Code(), qubit_index_map=index_map, qubit_refocusing=case["refocus"])
    return desc, init


def _classes(case):
    r = case["rounds"]
    return [f"order={case.get('order', 'circuit_first')}", f"own_lists={bool(case.get('own_lists'))}",
            f"d={case['distance']}", f"desc={case['desc']}", f"has0={0 in r}", f"has1={1 in r}", f"len={len(r)}",
            f"refocus={case['refocus']}", f"explicit_index_map={case.get('index_map') is not None}", f"ancilla_states={case.get('ancilla_states') is not None}",
            f"zero_first={r[0] == 0}", f"zero_last={r[-1] == 0}", f"max_count>=4={max(r) >= 4}",
            f"data_all_zero={set(case['data_states']) == {'0'}}"]


def body(case, ctx):
    from qce_circuit.library.repetition_code.circuit_constructors import construct_repetition_code_multi_round_circuit
    from qce_circuit.structure.acquisition_indexing.kernel_repetition_code import RepetitionExperimentKernel
    from qce_circuit.structure.acquisition_indexing.intrf_stabilizer_index_kernel import StateKey
    from qce_circuit.structure.intrf_acquisition_operation import AcquisitionTag
    from qce_circuit.structure.circuit_operations import DispersiveMeasure, Rx180, Rx180ef

    rounds = list(case["rounds"])
    ctx.case(case, nontrivial=len(rounds) >= 2 and (0 in rounds or 1 in rounds), classes=_classes(case))

    circuit = kernel = desc = None
    # The two encodings are built from ONE description object, in either order, and the kernel is handed either the
    # description's own identifier lists or copies: neither construction may disturb the other.
    kernel_first = case.get("order") == "kernel_first"
    own_lists = bool(case.get("own_lists"))

    def build_kernel():
        data_ids = desc.data_qubit_ids if own_lists else list(desc.data_qubit_ids)
        ancilla_ids = desc.ancilla_qubit_ids if own_lists else list(desc.ancilla_qubit_ids)
        return RepetitionExperimentKernel(
            rounds=list(rounds), heralded_initialization=True, qutrit_calibration_points=True,
            involved_data_qubit_ids=data_ids, involved_ancilla_qubit_ids=ancilla_ids,
            experiment_repetitions=1)

    with ctx.lib("building description"):
        desc, init = _build(case)
    if desc is None:
        return
    if kernel_first:
        with ctx.lib("building RepetitionExperimentKernel"):
            kernel = build_kernel()
    with ctx.lib("building multi-round circuit"):
        circuit = construct_repetition_code_multi_round_circuit(qec_cycles=list(rounds), description=desc, initial_state=init)
    if circuit is None:
        return
    spans, cycle = None, None
    with ctx.lib("building RepetitionExperimentKernel"):
        if not kernel_first:
            kernel = build_kernel()
        cycle = int(kernel.kernel_cycle_length)
        spans = {getattr(k, "nr_repeated_parities", None): (int(k.start_index), int(k.stop_index)) for k in kernel.indexing_kernels}
    if kernel is None or cycle is None or spans is None:
        return

    # one pass over the listing: measurements and calibration pulses per qubit (circuit side of the association)
    meas, pulses = {}, {}
    with ctx.lib("listing circuit operations"):
        for op in circuit.operations:
            if isinstance(op, DispersiveMeasure):
                meas.setdefault(op.qubit_index, []).append((int(op.acquisition_index), op.acquisition_tag, float(op.start_time)))
            elif isinstance(op, (Rx180, Rx180ef)):
                pulses.setdefault(op.qubit_index, []).append((float(op.start_time), type(op).__name__))

    ancillas = list(desc.ancilla_qubit_ids)
    if len(ancillas) != case["distance"] - 1:
        ctx.fail("description", f"description for distance {case['distance']} has ancillas {[a.id for a in ancillas]}")
    for a in ancillas:
        name = a.id
        c_all = c_tag = k_her = k_sp = k_hcal = k_cal = None
        with ctx.lib(f"circuit indices of ancilla {name}"):
            qi = desc.map_qubit_id_to_circuit_index(a)
            c_all = _ints(circuit.get_acquisition_indices(qi))
            c_tag = {t: _ints(circuit.get_acquisition_indices(AcquisitionTag(qi, t))) for t in ("heralded", "parity", "final")}
        with ctx.lib(f"kernel indices of ancilla {name}"):
            k_her = {r: _ints(kernel.get_heralded_cycle_acquisition_indices(a, r)) for r in rounds}
            k_sp = {r: _ints(kernel.get_stabilizer_and_projected_cycle_acquisition_indices(a, r)) for r in rounds}
            k_hcal = {s: _ints(kernel.get_heralded_calibration_acquisition_indices(a, StateKey(s))) for s in STATES}
            k_cal = {s: _ints(kernel.get_projected_calibration_acquisition_indices(a, StateKey(s))) for s in STATES}
        if c_all is None or c_tag is None or k_cal is None:
            continue
        where = f"ancilla {name} (circuit index {qi}), rounds {rounds}, distance {case['distance']}"

        # count
        if len(c_all) != cycle:
            ctx.fail("count", f"{where}: circuit acquires {len(c_all)} times {c_all}, kernel_cycle_length = {cycle}")
        # heralded
        exp_h = sorted([x for r in rounds for x in k_her[r]] + [x for s in STATES for x in k_hcal[s]])
        if sorted(c_tag["heralded"]) != exp_h:
            ctx.fail("heralded", f"{where}: circuit 'heralded' {sorted(c_tag['heralded'])}, kernel heralded cycle "
                                 f"{[k_her[r] for r in rounds]} + calibration {[k_hcal[s] for s in STATES]}")
        # parity
        exp_p = sorted(x for r in rounds for x in k_sp[r])
        if sorted(c_tag["parity"]) != exp_p:
            ctx.fail("parity", f"{where}: circuit 'parity' {sorted(c_tag['parity'])}, kernel stabilizer-and-projected "
                               f"{[k_sp[r] for r in rounds]}")
        # final (+ the documented 0-round difference)
        exp_f = sorted(x for s in STATES for x in k_cal[s])
        got_f = sorted(c_tag["final"])
        rest = list(got_f)
        for x in exp_f:
            if x in rest:
                rest.remove(x)
        lacking = [x for x in exp_f if x not in got_f]
        if lacking or len(got_f) - len(rest) != len(exp_f):
            ctx.fail("final", f"{where}: circuit 'final' {got_f} lacks kernel calibration indices {[k_cal[s] for s in STATES]}")
        if 0 in rounds:
            z = spans.get(0)
            reported = set(exp_h) | set(exp_p) | set(exp_f)
            if len(rest) != 1 or z is None or not (z[0] <= rest[0] <= z[1]) or rest[0] in reported:
                ctx.fail("final-zero-round", f"{where}: besides the calibration indices the circuit tags {rest} as 'final'; "
                                             f"expected exactly the one unreported slot of the 0-round kernel {z}")
        elif rest:
            ctx.fail("final", f"{where}: circuit 'final' indices {rest} are not kernel calibration indices "
                              f"{[k_cal[s] for s in STATES]} and there is no 0-round block")

        # association block by block
        seq = sorted(meas.get(qi, []))
        blocks = []           # [heralded index, [(index, tag, start)...]]
        for idx, tag, t in seq:
            if tag == "heralded":
                blocks.append([(idx, t), []])
            elif blocks:
                blocks[-1][1].append((idx, tag, t))
        if len(blocks) != len(rounds) + 3:
            ctx.fail("association", f"{where}: circuit has {len(blocks)} heralded blocks, experiment has "
                                    f"{len(rounds)} round blocks + 3 calibration blocks")
            continue
        for k, r in enumerate(rounds):
            (h, _), rest_b = blocks[k]
            par = [i for i, tag, _ in rest_b if tag == "parity"]
            if [h] != k_her[r]:
                ctx.fail("association", f"{where}: block {k} ({r} rounds) opens with heralded index {h}, kernel heralded({r}) = {k_her[r]}")
            if par != k_sp[r]:
                ctx.fail("association", f"{where}: block {k} ({r} rounds) has parity indices {par}, kernel "
                                        f"stabilizer-and-projected({r}) = {k_sp[r]}")
        for j in range(3):
            (h, th), rest_b = blocks[len(rounds) + j]
            fin = [(i, t) for i, tag, t in rest_b if tag == "final"]
            if len(fin) != 1 or len(rest_b) != 1:
                ctx.fail("association", f"{where}: calibration block {j} holds measurements {[(i, tag) for i, tag, _ in rest_b]}")
                continue
            between = sorted(n for t, n in pulses.get(qi, []) if th - 1e-9 <= t < fin[0][1] - 1e-9)
            state = {(): 0, ("Rx180",): 1, ("Rx180", "Rx180ef"): 2}.get(tuple(between))
            if state is None:
                ctx.note("calibration block with unrecognised preparation")
                continue
            if [h] != k_hcal[state] or [fin[0][0]] != k_cal[state]:
                ctx.fail("association", f"{where}: the circuit prepares state {state} in calibration block {j} (heralded index {h}, "
                                        f"final index {fin[0][0]}); kernel reports heralded {k_hcal[state]} / projected "
                                        f"{k_cal[state]} for state {state}")


# ------------------------------------------------------------------------------------------------ generators

def _strat(max_count, max_len, max_d):
    from hypothesis import strategies as st

    @st.composite
    def experiment(draw):
        d = draw(st.sampled_from(list(range(2, max_d + 1))))
        count = st.one_of(st.sampled_from([0, 1]), st.sampled_from(list(range(max_count + 1))), st.sampled_from([0, 1, 2, 3]))
        n = draw(st.sampled_from([1] + 2 * list(range(2, max_len + 1))))
        rounds = draw(st.lists(count, unique=True, min_size=n, max_size=n))
        bits = st.sampled_from("01")
        case = {
            "distance": d,
            "rounds": rounds,
            "data_states": "".join(draw(st.lists(bits, min_size=d, max_size=d))),
            "ancilla_states": draw(st.one_of(st.none(), st.none(), st.lists(bits, min_size=d - 1, max_size=d - 1).map("".join))),
            "desc": draw(st.sampled_from(["chain", "initial_state", "surface17"])),
            "refocus": draw(st.booleans()),
            "order": draw(st.sampled_from(["circuit_first", "kernel_first"])),
            "own_lists": draw(st.booleans()),
        }
        if case["desc"] == "surface17":
            case["offset"] = draw(st.integers(0, 9 - d))
            case["reverse"] = draw(st.booleans())
            # optional explicit channel numbering (device indices): distinct, not necessarily 0..n-1 or ordered
            if draw(st.booleans()):
                case["index_map"] = draw(st.lists(st.integers(0, 16), min_size=2 * d - 1, max_size=2 * d - 1, unique=True))
        return case
    return experiment()


def strat_sampled():
    return _strat(6, 4, 4)


def strat_sampled_large():
    return _strat(8, 5, 5)


def items_grid(tier):
    for n in (1, 2):
        for rounds in itertools.permutations([0, 1, 2, 3], n):
            for states in ("00", "01", "10", "11"):
                yield {"distance": 2, "rounds": list(rounds), "data_states": states, "ancilla_states": None,
                       "desc": "chain", "refocus": True,
                       "order": "kernel_first" if states in ("01", "10") else "circuit_first", "own_lists": states in ("10", "11")}
    if tier == "thorough":
        for r in range(9):
            yield {"distance": 3, "rounds": [r], "data_states": "010", "ancilla_states": None, "desc": "chain", "refocus": True}


def items_long_blocks(tier):
    """Blocks of many rounds: each block is flattened into one graph that is about 19 relation layers deep per round."""
    lists = [[9], [3, 9, 1], [12, 0], [2, 16]] if tier == "quick" else [[9], [3, 9, 1], [12, 0], [2, 16], [30], [1, 24, 7], [64]]
    for rounds in lists:
        for d in (2, 3):
            yield {"distance": d, "rounds": rounds, "data_states": "01"[:1] * 0 + "".join("01"[i % 2] for i in range(d)),
                   "ancilla_states": None, "desc": "chain" if d == 2 else "surface17", "offset": 1, "reverse": False,
                   "refocus": True, "order": "circuit_first"}


def parts():
    return [
        Part("grid", body, items=items_grid, exhaustive=True),
        Part("long_blocks", body, items=items_long_blocks, exhaustive=True),
        Part("sampled", body, strategy=strat_sampled, quick=150, thorough=400),
        Part("sampled_large", body, strategy=strat_sampled_large, quick=0, thorough=200),
    ]
