"""C06 - applying repetition modifiers unrolls n back-to-back copies, once."""
from __future__ import annotations

from .. import model as M
from .. import observe as O
from .. import programs as P
from ..harness import Part
from ..signatures import op_sig, close
from .c01 import compare_times

PROPERTY_ID = "C06"
RULE = ("programs: Hypothesis build programs (<= 7 items per circuit, nesting <= 2; part deep_nesting: <= 3 items per circuit, nesting <= 4, counts multiplying along the path; 4 qubits, <= 70 unrolled operations) "
        "with repetition counts 1..4 at every level including the top circuit (fixed and registry-provided; in about half of the cases every registry key is re-assigned 1-2 other counts and then its own again before unrolling), branching "
        "blocks, all kinds and durations, with / without a listing before unrolling. Oracle: signature multiset after "
        "apply_modifiers() = leaves x product of enclosing counts; structural correspondence with the unrolled reference "
        "model (each copy's relation-less items follow a relation leaf of what precedes, everything else keeps its "
        "relation); reported times = model times (copy k starts at the latest end among those leaves); operations outside "
        "repeated blocks are the same objects as before; every repetition count reads 1 afterwards; a second "
        "apply_modifiers() leaves listing objects and schedule unchanged; a block whose last-ending operation is a "
        "relation leaf, with nothing starting before its first operations and no nested counts, lasts n x its single "
        "duration. library: repetition-code circuits (distance 2..4, 0..6 cycles, refocusing on/off, simplified "
        "constructor too): the unrolled listing is exactly the n-fold concatenation of each block's listing, nested "
        "blocks expanded recursively. Non-trivial = some count >= 2 on a block with >= 2 operations; distinct = canonical JSON.")
ASSUMPTIONS = [
    "timing against the model is compared only when each copy boundary is decided by a leaf of the newest copy (otherwise the statement leaves the remaining leaf set open); structure, multiset, reset and idempotence are always checked",
    "the n-fold concatenation of listings is claimed for library-built circuits only",
]


# the usual dyadic durations plus a very long and a barely longer one (exactly representable): differences that are tiny
# relative to the absolute time at which they occur
DURATIONS = list(P.DYADIC) + [8388608.0, 1.00048828125]


def cfg():
    return P.GenCfg(nq=4, max_items=7, max_depth=2, p_sub=35, p_rel=35, max_reps=4, top_reps=True, reg_reps=True,
                    globals_=True, global_zero=True, max_total_leaves=70, min_sub_items=0, durations=DURATIONS)


def strat():
    from hypothesis import strategies as st
    return st.fixed_dictionaries({"program": P.program_strategy(cfg()), "pre_list": st.booleans(),
                                  "restage": st.lists(st.integers(1, 4), max_size=2)})


def cfg_deep():
    """Few items per circuit, nesting down to four levels with counts at every level (counts multiply along the path)."""
    return P.GenCfg(nq=3, max_items=3, max_depth=4, p_sub=60, p_rel=30, max_reps=3, top_reps=True, reg_reps=True,
                    globals_=True, global_zero=True, max_total_leaves=64, min_sub_items=1)


def strat_deep():
    from hypothesis import strategies as st
    return st.fixed_dictionaries({"program": P.program_strategy(cfg_deep()), "pre_list": st.booleans(),
                                  "restage": st.lists(st.integers(1, 4), max_size=2)})


def cfg_dense():
    """Few qubits, many small sibling sub-circuits: the shapes in which sub-circuits become interchangeable."""
    return P.GenCfg(kinds=["Wait", "Wait", "Rx180", "CPhase", "Barrier", "DispersiveMeasure", "Reset", "VirtualPark"], nq=3,
                    max_items=4, max_depth=2, p_sub=55, p_rel=25, max_reps=3, top_reps=False, globals_=False,
                    max_total_leaves=40)


def strat_dense():
    from hypothesis import strategies as st
    return st.fixed_dictionaries({"program": P.program_strategy(cfg_dense()), "pre_list": st.sampled_from([True, True, False])})


def simple_blocks(root: M.MCirc):
    """Paths of repeated sub-circuits for which the n*T clause applies (judged on the resolved, scheduled model)."""
    out = {}
    for n in root.all_nodes():
        if n.sub is None or n.sub.reps < 2 or not n.sub.nodes:
            continue
        mc = n.sub
        if any(m.sub is not None for m in mc.all_nodes()):
            continue                  # nested circuits inside: keep the clause to flat blocks
        dep = M._dependants(mc)
        latest = max(m.end for m in mc.nodes)
        leaf_latest = max([m.end for m in mc.nodes if dep.get(id(m), 0) == 0])
        earliest = min(m.start for m in mc.nodes)
        if leaf_latest >= latest - M.EPS and earliest >= n.start - M.EPS:
            out[n.path] = mc.reps
    return out


def body(case, ctx):
    program, pre_list = case["program"], case["pre_list"]
    st = P.stats(program)
    g, dreg = program.get("g"), program.get("dreg", {})
    big_block = any(c.get("reps", 1) >= 2 and P.leaf_count(c) >= 2
                    for c in [program["top"]] + [it["sub"] for _, it in P.iter_items(program["top"]) if P.is_sub(it)])
    nested_reps = any(P.is_sub(it) and it["sub"].get("reps", 1) > 1 and
                      any(P.is_sub(j) and j["sub"].get("reps", 1) > 1 for _, j in P.iter_items(it["sub"]))
                      for _, it in P.iter_items(program["top"]))
    ctx.case(case, nontrivial=big_block, classes=[
        f"big_block={big_block}", f"nested_reps={nested_reps}", f"top_reps={program['top'].get('reps', 1) > 1}",
        f"pre_list={pre_list}", f"nesting={st['nesting']}", f"restaged_counts={bool(case.get('restage'))}",
        f"reg_reps={any(c.get('rmode') == 'reg' for c in [it['sub'] for _, it in P.iter_items(program['top']) if P.is_sub(it)])}"])
    facts = {"kinds": st["kinds"], "pre_list": pre_list, "nested_reps": nested_reps}
    root = M.build(program)
    with P.global_override(g):
        # twin A: listed, to read the implicit tie choices; also the object we unroll when pre_list
        a = None
        with ctx.lib("build"):
            a = P.build(program)
            a.circuit.operations
        if a is None:
            return
        try:
            mapping = O.match(root, a.circuit.circuit_structure, g, dreg)
        except O.BudgetExhausted:
            ctx.note("match-budget-exhausted-built")
            return
        except O.Mismatch as e:
            ctx.fail("structure-built", str(e), facts)
            return
        M.schedule(root, g, dreg)
        target = a
        if not pre_list:
            with ctx.lib("build twin"):
                target = P.build(program)
        top_reps = program["top"].get("reps", 1)
        outside = []          # objects of top-level operations that must survive unchanged
        if top_reps == 1:
            outside = [target.handles[(i,)] for i, it in enumerate(program["top"]["items"]) if not P.is_sub(it)]
        before_dur = {}
        blocks = simple_blocks(root)
        if pre_list:
            # durations of simple top-level blocks before unrolling (same objects are unrolled in place)
            for path, reps in blocks.items():
                if len(path) == 1 and top_reps == 1:
                    with ctx.lib("duration before"):
                        before_dur[path] = float(target.handles[path].duration)
        mod = ops = None
        # registry-provided counts may be re-assigned any number of times before unrolling; the last value counts
        for decoy in case.get("restage", []):
            for key in sorted(target.rep_values):
                with ctx.lib("RepetitionRegistry.set_registry_at"):
                    target.repetition_registry.set_registry_at(key, decoy)
        if case.get("restage"):
            for key, value in sorted(target.rep_values.items()):
                with ctx.lib("RepetitionRegistry.set_registry_at"):
                    target.repetition_registry.set_registry_at(key, value)
        with ctx.lib("apply_modifiers"):
            mod = target.circuit.apply_modifiers()
            ops = list(mod.operations)
        if ops is None:
            return
        um, info = M.unroll(root, g, dreg)
        # multiset
        exp = O.leaf_sig_multiset(um, g, dreg)
        got = O.impl_sig_multiset(ops)
        norm = lambda ms: sorted((repr(k[:2]), round(k[2], 9), repr(k[3:]), v) for k, v in ms.items())
        if norm(exp) != norm(got):
            ctx.fail("unrolled-multiset", f"{len(ops)} operations after unrolling, model expects {len(um.leaves())}: "
                     f"missing {[k for k in norm(exp) if k not in norm(got)][:3]} extra {[k for k in norm(got) if k not in norm(exp)][:3]}", facts)
            return
        # untouched operations
        listed = {id(o) for o in ops}
        for o in outside:
            if id(o) not in listed:
                ctx.fail("outside-operation-replaced", f"top-level {type(o).__name__} outside any repeated block is no longer the listed object", facts)
        # counts reset
        with ctx.lib("nr_of_repetitions"):
            counts = [c.nr_of_repetitions for c in mod.composite_operations] + [mod.circuit_structure.nr_of_repetitions]
            if any(c != 1 for c in counts):
                ctx.fail("counts-not-reset", f"repetition counts after apply_modifiers: {counts}", facts)
        # structure + times
        mapping2 = None
        try:
            mapping2 = O.match(um, mod.circuit_structure, g, dreg)
        except O.Mismatch as e:
            ctx.fail("structure-unrolled", str(e), facts)
        except O.BudgetExhausted:
            ctx.note("match-budget-exhausted-unrolled")
        if info["ambiguous"]:
            ctx.note("ambiguous-leaf-set-skip-times")
        if mapping2 is not None and not info["ambiguous"]:
            compare_times(ctx, um, mapping2, "unrolled", facts)
        # n*T
        for path, reps in blocks.items():
            if path in before_dur:
                after = None
                with ctx.lib("duration after"):
                    after = float(target.handles[path].duration)
                if after is not None and not close(after, reps * before_dur[path]):
                    ctx.fail("n-times-T", f"block {list(path)} x{reps}: duration {before_dur[path]} before, {after} after "
                             f"(expected {reps * before_dur[path]})", facts)
        # idempotence
        again = ops3 = None
        with ctx.lib("apply_modifiers twice"):
            t_before = [(float(o.start_time), float(o.end_time)) for o in ops]
            again = mod.apply_modifiers()
            ops3 = list(again.operations)
            t_after = [(float(o.start_time), float(o.end_time)) for o in ops3]
        if ops3 is None:
            return
        if len(ops3) != len(ops) or any(x is not y for x, y in zip(ops, ops3)):
            ctx.fail("not-idempotent", f"second apply_modifiers changed the listing ({len(ops)} -> {len(ops3)} entries)", facts)
        elif any(not (close(x[0], y[0]) and close(x[1], y[1])) for x, y in zip(t_before, t_after)):
            ctx.fail("not-idempotent", "second apply_modifiers changed the schedule", facts)


# ------------------------------------------------------------------------------------------------------------------
# library circuits: n-fold concatenation
# ------------------------------------------------------------------------------------------------------------------
def items_library(tier):
    ds = [2, 3] if tier == "quick" else [2, 3, 4, 5]
    cyc = range(0, 6) if tier == "quick" else range(0, 9)
    for d in ds:
        for c in cyc:
            for refocus in (True, False):
                for ctor in ("full", "simplified"):
                    if ctor == "simplified" and not refocus:
                        continue
                    yield {"d": d, "cycles": c, "refocus": refocus, "ctor": ctor}


def expected_concat(comp):
    """Listing signatures the composite must show after unrolling, computed from its listing before unrolling."""
    direct_leaves, direct_subs, leaves = O.children(comp)
    owner = {}
    for s in direct_subs:
        for o in s.decomposed_operations():
            owner[id(o)] = s
    out, done = [], set()
    for o in leaves:
        s = owner.get(id(o))
        if s is None:
            out.append(op_sig(o))
        elif id(s) not in done:
            done.add(id(s))
            out.extend(expected_concat(s))
    # empty direct sub-circuits contribute nothing
    return out * comp.nr_of_repetitions


def body_library(case, ctx):
    from qce_circuit.language.intrf_declarative_circuit import InitialStateContainer, InitialStateEnum
    from qce_circuit.library.repetition_code.circuit_constructors import (
        construct_repetition_code_circuit, construct_repetition_code_circuit_simplified)
    from qce_circuit.library.repetition_code.circuit_components import RepetitionCodeDescription
    d, cycles = case["d"], case["cycles"]
    ctx.case(case, nontrivial=cycles >= 2, classes=[f"d={d}", f"cycles={cycles}", f"ctor={case['ctor']}"])
    init = InitialStateContainer.from_ordered_list([InitialStateEnum.ZERO if i % 2 == 0 else InitialStateEnum.ONE for i in range(d)])
    circ = None
    with ctx.lib("construct"):
        desc = RepetitionCodeDescription.from_initial_state(init, qubit_refocusing=case["refocus"])
        if case["ctor"] == "full":
            circ = construct_repetition_code_circuit(qec_cycles=cycles, description=desc, initial_state=init)
        else:
            circ = construct_repetition_code_circuit_simplified(qec_cycles=max(cycles, 1), description=desc, initial_state=init)
    if circ is None:
        return
    exp = got = None
    with ctx.lib("unroll"):
        exp = expected_concat(circ.circuit_structure)
        mod = circ.apply_modifiers()
        got = [op_sig(o) for o in mod.operations]
    if exp is None or got is None:
        return
    if len(exp) != len(got):
        ctx.fail("library-concat-length", f"unrolled listing has {len(got)} entries, n-fold concatenation {len(exp)}")
        return
    for i, (x, y) in enumerate(zip(exp, got)):
        if x[:2] != y[:2] or x[3:] != y[3:] or not close(x[2], y[2]):
            ctx.fail("library-concat", f"position {i}: expected {x}, listed {y}")
            return


def parts():
    return [
        Part("deep_nesting", body, strategy=strat_deep, quick=400, thorough=2500),
        Part("dense_nesting", body, strategy=strat_dense, quick=2500, thorough=5000),
        Part("programs", body, strategy=strat, quick=800, thorough=4000),
        Part("library", body_library, items=items_library),
    ]
