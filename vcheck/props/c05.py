"""C05 - copies are faithful and independent."""
from __future__ import annotations

from .. import model as M
from .. import observe as O
from .. import programs as P
from ..harness import Part
from ..signatures import op_sig, close, fingerprint, fp_diff

PROPERTY_ID = "C05"
RULE = ("per_class: every one of the 26 operation classes x generated field values (qubits, channel, fixed / registry "
        "duration, tag, annotation integers) x relation of each type (or none) to a reference that is / is not in the "
        "transfer lookup -> op.copy(lookup); oracle: same class, channels, qubits, duration (under two global settings "
        "and after a registry change), tag and annotation fields, relation type kept and reference re-pointed to "
        "lookup[ref] (dropped when absent), acquisition registry re-targeted through the lookup, no shared link object. "
        "programs: Hypothesis build programs over all kinds (nesting <= 2, shared links, repetition counts) copied "
        "explicitly (circuit_structure.copy(), taken from the circuit as built, after a listing, after flatten(), after "
        "apply_modifiers() or after both; compared again after the registry durations both read were re-assigned) and implicitly (add(sub)); oracle: "
        "listing signatures equal position by position, schedule relative to own start equal, every internal relation "
        "of the copy has the same type and points at the copy listed at the index of the original's reference, no "
        "operation object shared; up to three direct sub-circuits are then copied stand-alone (after the whole-circuit "
        "copy): same content, no relation to anything outside themselves; then one side is mutated (add operation / "
        "apply modifiers / flatten) and the full fingerprint of the other side and of every stand-alone copy must be "
        "unchanged. Non-trivial = (per_class) non-default field values with a relation; "
        "(programs) >= 1 explicit relation to a non-adjacent item and >= 1 kind with non-default fields; distinct = "
        "canonical JSON.")
ASSUMPTIONS = [
    "a relation whose reference is absent from the transfer lookup is dropped by copy(lookup) (documented in the copy docstrings)",
    "Barrier / CoordinateShiftOperation take no relation in their constructor; theirs is set through the public relation_link setter, as DeclarativeCircuit.add does for implicit placement",
]

NONDEFAULT_FIELD_KINDS = set(P.SELECT_1Q + P.GENERIC_1Q + P.GENERIC_2Q + ["VirtualTwoQubitVacant", "DispersiveMeasure"] + P.ANNOT)
G2 = [3.0, 7.0, 0.25, 1.5]


# ------------------------------------------------------------------------------------------------------------------
# (a) per class
# ------------------------------------------------------------------------------------------------------------------
def strat_per_class():
    from hypothesis import strategies as st
    cfg = P.GenCfg(nq=5, p_rel=0, globals_=False)

    @st.composite
    def one(draw):
        kind = draw(st.sampled_from(P.ALL_KINDS))
        sub = P.GenCfg(kinds=[kind], nq=5, max_items=1, min_items=1, max_depth=0, p_rel=0, globals_=False, tags=["", "a", "final"])
        prog = draw(P.program_strategy(sub))
        item = prog["top"]["items"][0]
        rel = draw(st.sampled_from([None, "F", "S", "E"]))
        return {"item": item, "dreg": prog["dreg"], "rel": rel, "in_lookup": draw(st.booleans()),
                "lookup_none": draw(st.booleans()), "retarget": draw(st.booleans())}
    return one()


def body_per_class(case, ctx):
    from qce_circuit.structure.circuit_operations import Identity
    from qce_circuit.structure.intrf_circuit_operation import RelationLink, RelationType
    from qce_circuit.language.declarative_circuit import DeclarativeCircuit
    item = dict(case["item"])
    kind, rel = item["k"], case["rel"]
    nondefault = kind in NONDEFAULT_FIELD_KINDS or item.get("ch") not in (None, "ALL")
    ctx.case(case, nontrivial=bool(rel) and nondefault,
             classes=[f"kind={kind}", f"rel={rel}", f"in_lookup={case['in_lookup']}", f"lookup_none={case['lookup_none']}"])
    b = P.Built()
    from qce_circuit.structure.registry_duration import DurationRegistry
    b.duration_registry = DurationRegistry()
    for k, v in sorted(case["dreg"].items()):
        b.duration_registry.set_registry_at(k, v)
    ref, ref2 = Identity(qubit_index=9), Identity(qubit_index=9)
    owner, other = DeclarativeCircuit(), DeclarativeCircuit()
    op = cp = None
    with ctx.lib("construct"):
        op = P.make_operation(item, (1,), (), owner, [], b)
        if rel:
            op.relation_link = RelationLink(ref, RelationType[P.REL[rel]])
    if op is None:
        return
    lookup = None
    if not case["lookup_none"]:
        lookup = {}
        if case["in_lookup"]:
            lookup[ref] = ref2
        if case["retarget"]:
            lookup[owner.circuit_structure] = other.circuit_structure
    with ctx.lib(f"{kind}.copy"):
        cp = op.copy(relation_transfer_lookup=lookup) if lookup is not None else op.copy()
    if cp is None:
        return
    if cp is op:
        ctx.fail("copy-identity", f"{kind}.copy returned the original object")
    if type(cp) is not type(op):
        ctx.fail("copy-class", f"{kind}.copy returned a {type(cp).__name__}")
    s0 = s1 = None
    with ctx.lib("signature"):
        s0, s1 = op_sig(op), op_sig(cp)
        with P.global_override(G2):
            t0, t1 = op_sig(op), op_sig(cp)
        if item.get("d", [None])[0] == "reg":
            b.duration_registry.set_registry_at(item["d"][1], 5.0)
            u0, u1 = float(op.duration), float(cp.duration)
        else:
            u0 = u1 = 0.0
    if s0 is None:
        return
    for a, c, what in ((s0, s1, "default durations"), (t0, t1, "second global setting")):
        if a[:2] != c[:2] or a[3:] != c[3:] or not close(a[2], c[2]):
            ctx.fail("copy-fields", f"{kind}: copy differs under {what}: original {a}, copy {c}", {"kind": kind})
    if not close(u0, u1):
        ctx.fail("copy-duration-strategy", f"{kind}: after a registry change original lasts {u0}, copy {u1}", {"kind": kind})
    # relation
    rl = None
    with ctx.lib("relation_link"):
        rl = cp.relation_link
        rref = rl.reference_node
        rtype = rl.relation_type.name
    if rl is None:
        return
    if rl is op.relation_link:
        ctx.fail("copy-shares-link", f"{kind}: copy holds the original's link object", {"kind": kind})
    if rel and lookup is not None and case["in_lookup"]:
        if rref is not ref2:
            ctx.fail("copy-relation-reference", f"{kind}: reference of the copy is {type(rref).__name__ if rref is not None else None}, "
                     f"expected the transferred operation", {"kind": kind})
        elif rtype != P.REL[rel]:
            ctx.fail("copy-relation-type", f"{kind}: relation type {rtype}, expected {P.REL[rel]}", {"kind": kind})
    else:
        if rref is not None:
            ctx.fail("copy-relation-not-dropped", f"{kind}: reference absent from the lookup but copy still refers to a "
                     f"{type(rref).__name__}", {"kind": kind})
    if kind == "DispersiveMeasure":
        target = None
        with ctx.lib("acquisition registry"):
            target = cp.acquisition_strategy.registry.reference_circuit
        want = other.circuit_structure if (lookup is not None and case["retarget"]) else owner.circuit_structure
        if target is not None and target is not want:
            ctx.fail("copy-registry", "acquisition registry of the copy targets the wrong circuit", {"kind": kind})


# ------------------------------------------------------------------------------------------------------------------
# (b, c) whole programs
# ------------------------------------------------------------------------------------------------------------------
def strat_programs():
    from hypothesis import strategies as st
    cfg = P.GenCfg(nq=4, max_items=8, max_depth=2, p_sub=22, p_rel=45, max_reps=3, globals_=True, global_zero=False, entry_points=True,
                   p_share=15, max_total_leaves=40)
    return st.fixed_dictionaries({
        "program": P.program_strategy(cfg),
        "pre": st.sampled_from(["none", "list", "flatten", "unroll", "list", "unroll_flatten"]),
        # registry durations are re-assigned after the copy was taken (original and copy read the same registry)
        "redur": st.none() | st.fixed_dictionaries({"k0": st.sampled_from(P.DYADIC[1:]), "k1": st.sampled_from(P.DYADIC[1:])}),
        "mutate": st.sampled_from(["add", "unroll", "flatten", "none"]),
        "side": st.sampled_from(["copy", "original"]),
    })


def listing_relations(ops, comps):
    """For each listed op: (relation type name or None, index of referenced op in ops | ('c', index in comps) | 'out')."""
    pos = {id(o): i for i, o in enumerate(ops)}
    cpos = {id(c): i for i, c in enumerate(comps)}
    out = []
    for o in ops:
        link = o.relation_link
        ref = link.reference_node
        if ref is None:
            out.append((None, None))
        elif id(ref) in pos:
            out.append((link.relation_type.name, pos[id(ref)]))
        elif id(ref) in cpos:
            out.append((link.relation_type.name, ("c", cpos[id(ref)])))
        else:
            out.append((link.relation_type.name, "out"))
    return out


def compare_copy(ctx, orig_struct, copy_struct, what, facts):
    """orig_struct / copy_struct: composites. Compares listings, relative schedule and internal relations."""
    a = c = None
    with ctx.lib(f"observe {what}"):
        oa, oc = list(orig_struct.decomposed_operations()), list(copy_struct.decomposed_operations())
        ca, cc = list(orig_struct.get_sub_composite_operations()), list(copy_struct.get_sub_composite_operations())
        a = [op_sig(o) for o in oa]
        c = [op_sig(o) for o in oc]
        ta = [(float(o.start_time), float(o.end_time)) for o in oa]
        tc = [(float(o.start_time), float(o.end_time)) for o in oc]
        ra, rc = listing_relations(oa, ca), listing_relations(oc, cc)
        da, dc = float(orig_struct.duration), float(copy_struct.duration)
        sa, sc = float(orig_struct.start_time), float(copy_struct.start_time)
        na, nc = [x.nr_of_repetitions for x in ca], [x.nr_of_repetitions for x in cc]
    if a is None:
        return None
    if len(a) != len(c):
        ctx.fail("copy-length", f"{what}: original lists {len(a)} operations, copy {len(c)}", facts)
        return None
    for i, (x, y) in enumerate(zip(a, c)):
        if x[:2] != y[:2] or x[3:] != y[3:] or not close(x[2], y[2]):
            ctx.fail("copy-listing", f"{what}: position {i}: original {x}, copy {y}", dict(facts, kind=x[0]))
            return None
    if any(id(o) in {id(p) for p in oa} for o in oc):
        ctx.fail("copy-shares-operation", f"{what}: an operation object is shared between original and copy", facts)
    if any(x is y for x in ca for y in cc):
        ctx.fail("copy-shares-subcircuit", f"{what}: a sub-circuit object is shared", facts)
    if na != nc:
        ctx.fail("copy-repetitions", f"{what}: repetition counts {na} vs {nc}", facts)
    if not close(da, dc):
        ctx.fail("copy-duration", f"{what}: duration {da} vs {dc}", facts)
    for i, ((s0, e0), (s1, e1)) in enumerate(zip(ta, tc)):
        if not (close(s0 - sa, s1 - sc) and close(e0 - sa, e1 - sc)):
            ctx.fail("copy-schedule", f"{what}: {a[i][0]} at position {i} sits at {s0 - sa}..{e0 - sa} relative to the "
                     f"original's start but at {s1 - sc}..{e1 - sc} in the copy", dict(facts, kind=a[i][0]))
            break
    for i, (x, y) in enumerate(zip(ra, rc)):
        if x[1] == "out" or y[1] == "out":
            # first operations carry their enclosing circuit's relation (outside the copied part)
            if (x[1] == "out") != (y[1] == "out") and not (x[1] is None or y[1] is None):
                ctx.fail("copy-relation", f"{what}: position {i} relation {x} vs {y}", dict(facts, kind=a[i][0]))
            continue
        if x != y:
            ctx.fail("copy-relation", f"{what}: {a[i][0]} at position {i} has relation {x} in the original but {y} in "
                     f"the copy", dict(facts, kind=a[i][0]))
            break
    return oa, oc


def body_programs(case, ctx):
    case = dict(case)
    case.setdefault("pre", "list" if case.pop("pre_list", False) else "none")     # older replay files
    from qce_circuit.structure.circuit_operations import Wait
    from qce_circuit.structure.registry_duration import FixedDurationStrategy
    program = case["program"]
    st = P.stats(program)
    g = program.get("g")
    nonadjacent = any(it.get("rel") and it["rel"][1] < p[-1] - 1 for p, it in P.iter_items(program["top"]) if not P.is_sub(it))
    nondefault = any(k in NONDEFAULT_FIELD_KINDS for k in st["kinds"])
    ctx.case(case, nontrivial=nonadjacent and nondefault, classes=[
        f"nonadjacent_rel={nonadjacent}", f"nesting={st['nesting']}", f"pre={case['pre']}",
        f"mutate={case['mutate']}", f"redur={bool(case.get('redur'))}", f"side={case['side']}", f"reps={st['n_reps_gt1'] > 0}", f"shared={st['shared_link']}"])
    facts = {"kinds": st["kinds"], "pre": case["pre"]}
    with P.global_override(g):
        b = None
        with ctx.lib("build"):
            b = P.build(program)
        if b is None:
            return
        # what happened to the circuit before it is copied: nothing / a listing / flatten() / apply_modifiers()
        if case["pre"] == "list":
            with ctx.lib("list"):
                b.circuit.operations
        # implicit copies made by add(sub): compare each top-level sub DeclarativeCircuit with the nested copy
        for i, it in enumerate(program["top"]["items"]):
            if P.is_sub(it):
                compare_copy(ctx, b.passed[(i,)].circuit_structure, b.handles[(i,)], f"add(sub) item {i}", facts)
        if case["pre"] in ("flatten", "unroll", "unroll_flatten"):
            with ctx.lib(case["pre"]):
                if case["pre"] != "flatten":
                    b.circuit.apply_modifiers()
                if case["pre"] != "unroll":
                    b.circuit.flatten()
        # explicit copy
        orig = b.circuit.circuit_structure
        cp = None
        with ctx.lib("circuit_structure.copy"):
            cp = orig.copy()
        if cp is None:
            return
        compare_copy(ctx, orig, cp, "circuit_structure.copy()", facts)
        # the copy follows the same schedule under every duration assignment, not only the one it was taken under
        dreg = program.get("dreg", {})
        if case.get("redur") and dreg:
            with ctx.lib("change registry durations"):
                for k in sorted(dreg):
                    b.duration_registry.set_registry_at(k, case["redur"].get(k, dreg[k]))
            compare_copy(ctx, orig, cp, "circuit_structure.copy() after the registry durations were re-assigned", dict(facts, redur=True))
        # stand-alone copies of (up to three) direct sub-circuits, taken after the whole circuit was copied: each is a
        # circuit of its own - same content, and no relation into the original or into the earlier copy
        subs, alone = [], []
        with ctx.lib("sub-circuits"):
            subs = O.children(orig)[1][:3]
        for k, sub in enumerate(subs):
            sc = refs = own = None
            with ctx.lib("sub-circuit copy"):
                sc = sub.copy()
                inner_ops, inner_subs = list(sc.decomposed_operations()), list(sc.get_sub_composite_operations())
                own = {id(x) for x in inner_ops + inner_subs} | {id(sc)}
                refs = [x.relation_link.reference_node for x in [sc] + inner_ops + inner_subs]
            if refs is None:
                continue
            compare_copy(ctx, sub, sc, f"stand-alone copy of sub-circuit {k}", facts)
            foreign = [type(r).__name__ for r in refs if r is not None and id(r) not in own]
            if foreign:
                ctx.fail("copy-references-foreign-object", f"stand-alone copy of sub-circuit {k} (taken after the whole circuit was copied) "
                         f"keeps a relation to {foreign[:3]} outside itself", facts)
            alone.append(sc)
        if case["mutate"] == "none":
            return
        victim, bystander = (cp, orig) if case["side"] == "copy" else (orig, cp)
        before = before_alone = None
        with ctx.lib("fingerprint"):
            before = _fp(bystander)
            before_alone = [_fp(x) for x in alone]
        if before is None or before_alone is None:
            return
        with ctx.lib(f"mutate {case['mutate']}"):
            if case["mutate"] == "add":
                victim.add(Wait(0, duration_strategy=FixedDurationStrategy(3.0)))
                victim.add(Wait(1, duration_strategy=FixedDurationStrategy(1.5)))
            elif case["mutate"] == "unroll":
                victim.apply_modifiers_to_self()
            elif case["mutate"] == "flatten":
                victim.apply_flatten_to_self()
            victim.decomposed_operations()
        after = None
        with ctx.lib("fingerprint"):
            after = _fp(bystander)
        if after is None:
            return
        d = fp_diff(before, after)
        if d is None and before["ids"] != after["ids"]:
            d = "listed objects changed"
        if d is not None:
            ctx.fail("copy-not-independent", f"{case['mutate']} on the {case['side']} changed the other side: {d}", facts)
        after_alone = None
        with ctx.lib("fingerprint"):
            after_alone = [_fp(x) for x in alone]
        for k, (x, y) in enumerate(zip(before_alone, after_alone or [])):
            d = fp_diff(x, y)
            if d is None and x["ids"] != y["ids"]:
                d = "listed objects changed"
            if d is not None:
                ctx.fail("copy-not-independent", f"{case['mutate']} on the {case['side']} changed the stand-alone copy of sub-circuit {k}: {d}", facts)


def _fp(struct):
    ops = list(struct.decomposed_operations())
    return {
        "sigs": [op_sig(o) for o in ops],
        "times": [(float(o.start_time), float(o.end_time)) for o in ops],
        "duration": float(struct.duration),
        "ids": [id(o) for o in ops],
        "acq": [(o.acquisition_index, o.circuit_level_acquisition_index) for o in ops if hasattr(o, "acquisition_index")],
    }


def parts():
    return [
        Part("per_class", body_per_class, strategy=strat_per_class, quick=2600, thorough=8000),
        Part("programs", body_programs, strategy=strat_programs, quick=1200, thorough=5000),
    ]
