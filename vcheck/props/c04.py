"""C04 - a (sub-)circuit's duration spans everything it contains."""
from __future__ import annotations

from .. import model as M
from .. import programs as P
from ..harness import Part
from ..signatures import close

PROPERTY_ID = "C04"
RULE = ("Hypothesis build programs (part programs: <= 10 items per circuit, nesting <= 2, 4 qubits; part dense_nesting: 3 qubits, <= 4 items per circuit, every second item a sub-circuit with count 1..3) over all duration-carrying "
        "operation kinds with fixed / registry / global durations from {0,.25,.5,1,1.5,2,3,7, 1+2^-11, 341/1024}, explicit relations of "
        "all three types on ~70 % of the items (references to earlier operations and sub-circuits), interpreted through "
        "DeclarativeCircuit.add under a generated global-duration override; up to two nested blocks per program are additionally "
        "re-scheduled after add() through their assignable relation (FOLLOWED_BY / JOINED_START to an earlier item of the same circuit). Oracle: for the circuit and every "
        "sub-circuit the reported duration must equal max end - min start over the operations it lists (reported "
        "times), 0 when empty; and every operation FOLLOWED_BY a block none of whose operations start before the "
        "block's start must start no earlier than every end inside the block; both clauses again after apply_modifiers(), "
        "and in about half of the cases on the same objects (optionally flattened first) after the registry durations were "
        "re-assigned and under a second generated global setting. Non-trivial = some (sub-)circuit whose "
        "latest-ending operation has a dependant (is not a relation leaf) or whose earliest-starting operation is not "
        "a first-placed one, according to the reference model; distinct = distinct canonical JSON of the program.")
ASSUMPTIONS = [
    "start/end times reported by operations after one listing are taken at face value (their correctness is C01)",
    "sub-circuits are added through DeclarativeCircuit.add (the public way to nest); add() sequences them implicitly, an explicit relation can only be assigned to the returned block afterwards - generated for FOLLOWED_BY / JOINED_START; a JOINED_END block is outside the domain (no add call produces one, and a listing hands the block's relation to its first operations, which means something else for JOINED_END)",
]

KINDS = P.MW_KINDS[:4] + P.SELECT_1Q + P.GENERIC_1Q + P.GENERIC_2Q + ["CPhase", "VirtualTwoQubitVacant", "Reset",
                                                                       "VirtualPark", "DispersiveMeasure", "Barrier",
                                                                       "TwoQubitVirtualPhase"]


# the usual dyadic durations plus two that are no multiple of any coarse time grid (exactly representable in binary)
DURATIONS = list(P.DYADIC) + [1.00048828125, 0.3330078125]


def cfg():
    return P.GenCfg(kinds=KINDS, nq=4, max_items=10, max_depth=2, p_sub=18, p_rel=70, max_reps=3, top_reps=True, globals_=True,
                    global_zero=True, max_total_leaves=40, durations=DURATIONS)


def cfg_dense():
    """Few qubits, many small (repeated) sub-circuits inside sub-circuits, followers of whole blocks."""
    return P.GenCfg(kinds=["Wait", "Wait", "Rx180", "CPhase", "Barrier", "DispersiveMeasure", "Reset", "VirtualPark"], nq=3,
                    max_items=4, max_depth=2, p_sub=55, p_rel=50, max_reps=3, top_reps=True, globals_=False, max_total_leaves=40, durations=DURATIONS)


def strat_dense():
    return strat(cfg_dense())


def strat(config=None):
    from hypothesis import strategies as st
    pos = st.sampled_from([0.25, 0.5, 1.0, 1.5, 2.0, 3.0, 7.0])
    # "second": a second duration configuration for the same circuit objects after they were read once;
    # "flat": the circuit is flattened before that
    second = st.none() | st.fixed_dictionaries({
        "g": st.lists(pos, min_size=4, max_size=4), "flat": st.booleans(),
        "dreg": st.fixed_dictionaries({"k0": st.sampled_from(P.DYADIC), "k1": st.sampled_from(P.DYADIC)})})
    # "peek": the unfinished circuit's duration and times are read before every add (a user looking while building)
    relink = st.lists(st.tuples(st.integers(0, 7), st.sampled_from("FS"), st.integers(0, 9)), max_size=2)
    return st.tuples(P.program_strategy(config or cfg()), second, st.booleans(), relink).map(
        lambda t: relink_blocks(dict(t[0], second=t[1], peek=t[2]), t[3]))


def relink_blocks(program, choices):
    """Give up to two nested blocks (not the first item of their circuit) an explicit relation to an earlier item of the
    same circuit: item['srel'] = [type, index]; interpreted by programs.build after the block was added.
    FOLLOWED_BY / JOINED_START only: a listing hands the block's relation to the block's first operations, which has the same
    meaning for these two types; for JOINED_END it has not (the first operation's end, not the block's end, is joined), and
    no add call can produce such a block, so that case is outside the build programs the property quantifies over."""
    subs = [(p, it) for p, it in P.iter_items(program["top"]) if P.is_sub(it) and p[-1] > 0]
    for a, typ, r in choices:
        if subs:
            p, it = subs[a % len(subs)]
            it["srel"] = [typ, r % p[-1]]
    return program


def off_leaf_circuits(root: M.MCirc):
    """Model circuits whose span is not attained on (first nodes, relation leaves)."""
    out = []

    def visit(mc: M.MCirc, path):
        lv = mc.leaves()
        if lv:
            dep = M._dependants(mc)
            # direct children decide: the child containing the latest end / earliest start
            latest = max(mc.nodes, key=lambda n: (n.end, -n.index))
            earliest = min(mc.nodes, key=lambda n: (n.start, n.index))
            max_end = max(n.end for n in mc.nodes)
            min_start = min(n.start for n in mc.nodes)
            leaf_max = max([n.end for n in mc.nodes if dep.get(id(n), 0) == 0], default=None)
            first_min = min([n.start for n in mc.nodes if n.ref is None], default=None)
            if (leaf_max is not None and leaf_max < max_end - M.EPS) or (first_min is not None and first_min > min_start + M.EPS):
                out.append(path)
        for n in mc.nodes:
            if n.sub is not None:
                visit(n.sub, n.path)
    visit(root, ())
    return out


def body(case, ctx):
    program = case
    program.setdefault("second", None)
    st = P.stats(program)
    root = M.build(program)
    M.resolve(root)
    M.schedule(root, program.get("g"), program.get("dreg", {}))
    off = off_leaf_circuits(root)
    ctx.case(case, nontrivial=bool(off), classes=[
        f"off_leaf={bool(off)}", f"nesting={st['nesting']}", f"global={st['global']}",
        f"empty_sub={any(P.is_sub(it) and not it['sub']['items'] for _, it in P.iter_items(program['top']))}",
        f"rel_types={''.join(st['rel_types'])}", f"reconfigured={bool(program.get('second'))}", f"peek={bool(program.get('peek'))}",
        f"relinked_block={any(P.is_sub(it) and it.get('srel') for _, it in P.iter_items(program['top']))}",
        f"flattened={bool(program.get('second') and program['second']['flat'])}"])
    facts = {"off_leaf_paths": [list(p) for p in off]}
    with P.global_override(program.get("g")):
        b = None

        def peek(decl, p, it):
            decl.duration
            for o in decl.operations:
                o.start_time

        with ctx.lib("build + list"):
            b = P.build(program, peek=peek if program.get("peek") else None)
            ops = b.circuit.operations
        if b is None:
            return
        n_subs = sum(1 for _, it in P.iter_items(program["top"]) if P.is_sub(it))
        check_circuit(ctx, b.circuit, ops, "built", facts, n_subs)
        # the same clauses on the unrolled circuit (a circuit like any other; durations were read before unrolling)
        if st["n_reps_gt1"] > 0:
            mod = ops2 = None
            with ctx.lib("apply_modifiers + list"):
                mod = b.circuit.apply_modifiers()
                ops2 = mod.operations
            if ops2 is not None:
                check_circuit(ctx, mod, ops2, "unrolled", facts, None)
        # the same objects (unrolled in place above), optionally flattened, under a second duration configuration:
        # the clauses hold for every configuration, not only the one the circuit was built and first read under
        second = program.get("second")
        if second:
            target = b.circuit
            if second["flat"]:
                # followers of whole blocks, remembered by object: flatten() removes the block but keeps its operations
                pairs = []
                with ctx.lib("followers of blocks"):
                    for i, it in enumerate(program["top"]["items"]):
                        rel = None if P.is_sub(it) else it.get("rel")
                        if rel and rel[0] == "F" and rel[1] >= 0 and "share" not in it and P.is_sub(program["top"]["items"][rel[1]]):
                            block = b.handles[(rel[1],)]
                            content = list(block.decomposed_operations())
                            if content and min(float(o.start_time) for o in content) >= float(block.start_time) - 1e-9:
                                pairs.append((i, [b.passed[(i,)]], content))
                    # ... and blocks that follow a block (implicitly, or through the relation assigned to them)
                    tops = {id(b.handles[(j,)]): j for j, x in enumerate(program["top"]["items"]) if P.is_sub(x)}
                    for i, it in enumerate(program["top"]["items"]):
                        if not P.is_sub(it):
                            continue
                        mine = b.handles[(i,)]
                        link = mine.relation_link
                        j = tops.get(id(link.reference_node)) if link.has_reference else None
                        if j is None or link.relation_type.name != "FOLLOWED_BY":
                            continue
                        block = b.handles[(j,)]
                        content, followers = list(block.decomposed_operations()), list(mine.decomposed_operations())
                        # (a relation assigned after add() does not move the block in the listing; flatten() works through the
                        #  listing, so only blocks that are listed behind the block they follow are judged - listing order is C02)
                        position = {id(o): n for n, o in enumerate(target.operations)}
                        listed_behind = (content and followers and all(id(o) in position for o in content + followers)
                                         and max(position[id(o)] for o in content) < min(position[id(o)] for o in followers))
                        if (listed_behind and min(float(o.start_time) for o in content) >= float(block.start_time) - 1e-9
                                and min(float(o.start_time) for o in followers) >= float(mine.start_time) - 1e-9):
                            pairs.append((i, followers, content))
                ops3 = None
                with ctx.lib("flatten + list"):
                    target = target.flatten()
                    ops3 = target.operations
                if ops3 is None:
                    return
                check_circuit(ctx, target, ops3, "flattened", facts, None)
                listed = {id(o) for o in ops3}
                for i, followers, content in pairs:
                    if any(id(o) not in listed for o in followers + content):
                        continue          # (objects replaced: nothing to compare by identity)
                    with ctx.lib("follower after flatten"):
                        mine, latest = min(float(o.start_time) for o in followers), max(float(o.end_time) for o in content)
                    if mine < latest - 1e-9:
                        ctx.fail("follower-overlaps-block", f"flattened: item {i} ({type(followers[0]).__name__}{' ...' if len(followers) > 1 else ''}) "
                                 f"was scheduled FOLLOWED_BY a block whose operations end at {latest} but starts at {mine}", dict(facts, what="flattened"))
            dreg = program.get("dreg", {})
            changed = False
            with ctx.lib("change registry durations"):
                for k in sorted(dreg):
                    changed = changed or second["dreg"].get(k, dreg[k]) != dreg[k]
                    b.duration_registry.set_registry_at(k, second["dreg"].get(k, dreg[k]))
            if changed:
                ops4 = None
                with ctx.lib("list"):
                    ops4 = target.operations
                if ops4 is not None:
                    check_circuit(ctx, target, ops4, "registry-reconfigured", facts, None)
            with P.global_override(second["g"]):
                ops5 = None
                with ctx.lib("list"):
                    ops5 = target.operations
                if ops5 is not None:
                    check_circuit(ctx, target, ops5, "global-reconfigured", facts, None)


def check_circuit(ctx, circuit, ops, what, facts, n_subs):
    comps = []
    with ctx.lib("composite_operations"):
        comps = list(circuit.composite_operations)
    blocks = [("top", circuit, circuit.circuit_structure)] + [(f"sub#{i}", c, c) for i, c in enumerate(comps)]
    listed = {id(o) for o in ops}
    if n_subs is not None and len(comps) != n_subs:
        ctx.fail("sub-circuit-count", f"{n_subs} sub-circuits added, {len(comps)} reported by composite_operations")
    for name, obj, struct in blocks:
        rep = None
        with ctx.lib("duration"):
            content = struct.decomposed_operations()
            rep = float(obj.duration)
            times = [(float(o.start_time), float(o.end_time)) for o in content]
        if rep is None:
            continue
        if any(id(o) not in listed for o in content):
            ctx.fail("content-not-listed", f"{what}: {name} lists operations the circuit does not")
        exp = (max(e for _, e in times) - min(s for s, _ in times)) if times else 0.0
        if not close(rep, exp):
            ctx.fail("duration-span", f"{what}: {name} reports duration {rep}, but its operations span {exp} "
                     f"(starts/ends {times[:12]})", dict(facts, block=name, what=what))
        if name == "top":
            with ctx.lib("DeclarativeCircuit.duration"):
                if not close(float(circuit.duration), float(circuit.circuit_structure.duration)):
                    ctx.fail("duration-wrapper", "DeclarativeCircuit.duration differs from its structure's duration")
    # consequence clause: FOLLOWED_BY a block whose content does not start before the block
    for h in list(ops) + comps:
        mine = latest = None
        with ctx.lib("follow-block"):
            link = h.relation_link
            ref = link.reference_node
            if ref is None or link.relation_type.name != "FOLLOWED_BY":
                continue
            if not hasattr(ref, "get_sub_composite_operations"):
                continue
            content = ref.decomposed_operations()
            if not content:
                continue
            block_start = float(ref.start_time)
            if min(float(o.start_time) for o in content) < block_start - 1e-9:
                continue
            latest = max(float(o.end_time) for o in content)
            mine = float(h.start_time)
        if mine is not None and mine < latest - 1e-9:
            ctx.fail("follower-overlaps-block", f"{what}: {type(h).__name__} is FOLLOWED_BY a block whose content ends at "
                     f"{latest} but starts at {mine}", dict(facts, what=what))


def parts():
    return [Part("dense_nesting", body, strategy=strat_dense, quick=2200, thorough=6000),
            Part("programs", body, strategy=strat, quick=2500, thorough=12000, fuzz_quick=0, fuzz_thorough=8000)]
