"""C18 - drawing shows the schedule and leaves the circuit alone."""
from __future__ import annotations

from typing import Any, Dict, List, Optional, Tuple

from .. import env
from .. import findings
from .. import model as M
from .. import observe as O
from .. import programs as P
from ..harness import Part
from ..signatures import fingerprint, fp_diff

PROPERTY_ID = "C18"

VIS_G = [2.0, 1.0, 1.0, 2.0]            # readout, microwave, flux, reset: VISUALIZATION_DURATION_REGISTRY (checked at run time)
TOL = 1e-9

# kinds with an entry in the drawing's factory lookup
LOOKUP_KINDS = ["CPhase", "DispersiveMeasure", "Reset", "Wait", "Rx180", "Rx90", "Rxm90", "Ry180", "Ry90", "Rym90",
                "Rx180ef", "Rphi90", "VirtualPhase", "Identity", "Hadamard", "Barrier", "VirtualPark", "VirtualVacant",
                "VirtualTwoQubitVacant", "VirtualEmpty"]
# single-qubit kinds without an entry: the default factory draws a '?' block on the qubit's row
DEFAULT_1Q_KINDS = ["SingleQubitOperation", "DetectorOperation", "LogicalObservableOperation"]
DRAWABLE = LOOKUP_KINDS + DEFAULT_1Q_KINDS
# kinds whose placement is NOT asserted: generic two-qubit kinds have no drawing at all (grouped as two-qubit operations,
# absent from MultiTwoQubitBlockFactory.factory_lookup -> skipped); the multi-qubit annotation gets one default block
UNASSERTED = ["TwoQubitOperation", "TwoQubitVirtualPhase", "CoordinateShiftOperation"]
GROUPED_2Q = {"CPhase", "VirtualTwoQubitVacant", "TwoQubitOperation", "TwoQubitVirtualPhase"}   # isinstance TwoQubitOperation
DRAWN_2Q = {"CPhase": "BlockTwoQubitGate", "VirtualTwoQubitVacant": "BlockTwoQubitVacant"}   # kind -> component class

RULE = ("Hypothesis cases {program, order, labels, compact, outer, unroll, observe_first}: build programs (<= 7 items per "
        "circuit, nesting <= 2, 4 qubits, <= 40 unrolled operations, explicit relations of all three types on ~35 % of the "
        "items, repetition counts 1..3, fixed/registry durations from {0,.25,.5,1,1.5,2,3,7}) over the 23 drawable kinds "
        "(part drawable), mostly two-qubit gates (part two_qubit_dense) or all 26 kinds (part any_kind); channel order = none | a permutation | a proper prefix of a "
        "permutation | [] of the occupied channel ids (constructed from the program), in part unknown_channel with one "
        "unoccupied id inserted; label map = none | labels for a drawn subset of the occupied ids, sometimes plus an "
        "unoccupied key; compact on/off; outer global durations = none | four positive dyadic values (so != the drawing's "
        "2/1/1/2 in compact mode); the circuit as built or after apply_modifiers(); fingerprint taken before plotting or "
        "only on a never-plotted twin; in about a fifth of the cases the unfinished circuit was already drawn once (default arguments) before a generated top-level item was added. Part library enumerates repetition-code / simplified / multi-round / calibration "
        "circuits x reversed, rotated, two-id-prefix, no and unknown-id order x label maps x outer durations x unrolled. "
        "Oracle: plot_circuit (Agg) must not raise; the description it actually hands to plot_circuit_description is "
        "captured and must show rows = requested order + each remaining occupied id once, labels of mapped channels = the "
        "mapped string, width = max(1, latest end) + 1 and figure size to match, and the multiset of (left edge x, rows) "
        "of its draw components = multiset of (start, rows of the qubits) over the drawable operations (an operation on no qubit, e.g. a barrier over an empty list, has no row and no component), times from the "
        "reference model (relations as built, durations = the drawing's; library part: times a never-plotted twin reports "
        "under the drawing's durations) - two-qubit gates sharing a start time may be off by <= duration/4; every component that spans several rows (barriers, two-qubit gates) is drawn once more on a scratch Axes and the lines / patches it paints must reach from its top row to its bottom row and stay inside their band; fingerprint "
        "(listing signatures, times, duration, acquisition indices) under the outer durations identical before/after and "
        "identical to the twin's; the global duration lookup is the same function object after the call and reports the "
        "outer durations; no figure stays open beyond the returned one; an unknown id in the order raises, leaves no "
        "figure and changes nothing. Non-trivial = >= 2 occupied channels and a requested order that differs from the "
        "program's first-occurrence order (or holds an unknown id) and outer durations set and != 2/1/1/2; distinct = "
        "canonical JSON of the case.")
ASSUMPTIONS = [
    "drawable kinds = the 20 kinds in the factory lookup plus single-qubit kinds drawn by the default factory (SingleQubitOperation, DetectorOperation, LogicalObservableOperation); generic TwoQubitOperation and TwoQubitVirtualPhase have no drawing (silently skipped) and CoordinateShiftOperation gets a single default block: programs containing them (part any_kind) must draw without error and stay unchanged, their own placement is not asserted",
    "the order of rows NOT named in the requested order is not fixed by the property: only 'each remaining occupied channel exactly once' is demanded (agreement with first-occurrence order is reported as a class label)",
    "the label shown for a channel without entry in the label map may be the bare id or '# id'",
    "expected start/end times come from vcheck.model evaluated under the drawing's durations, following the implementation's choice among equally deep implicit predecessors (observe.match on a never-plotted twin); when the correspondence is ambiguous / cut off / fails (a C01 matter) the twin's own reported times under the same durations are used instead and the case is labelled oracle=library",
    "two-qubit gates that share a start time with another two-qubit operation may be drawn up to 1/4 of their duration left or right of the start (offset documented in MultiTwoQubitBlockFactory); no other horizontal tolerance",
    "figure width = max(1, latest end) + 1 and height = 1.2 x number of rows (one unit header margin, channel spacing 1.2) are taken from VisualCircuitDescription; matplotlib only builds artists here (no rasterisation)",
    "plot_circuit looks up plot_circuit_description as a module global, which lets the check observe the description that is really drawn",
    "an unknown channel counts as rejected when plot_circuit raises any Exception before a figure exists (the library documents ValueError; the type is recorded as a class label)",
]


# ------------------------------------------------------------------------------------------------------------------
# generation
# ------------------------------------------------------------------------------------------------------------------
def cfg(kinds):
    return P.GenCfg(kinds=list(kinds), empty_barrier=True, nq=4, max_items=7, min_items=1, max_depth=2, p_sub=22, p_rel=35, max_reps=3,
                    globals_=False, max_total_leaves=40)


def occupied(program) -> List[int]:
    """Occupied channel ids in first-occurrence order of the program text (depth first)."""
    out: List[int] = []
    for _, it in P.iter_items(program["top"]):
        if not P.is_sub(it):
            for q in it["q"]:
                if q not in out:
                    out.append(q)
    return out


def case_strategy(kinds, unknown: bool):
    from hypothesis import strategies as st
    pos = [d for d in P.DYADIC if 0 < d < 7]

    @st.composite
    def case(draw):
        program = draw(P.program_strategy(cfg(kinds)))
        occ = occupied(program)
        perm = list(draw(st.permutations(occ))) if occ else []
        mode = draw(st.integers(0, 9))
        if unknown:
            cut = draw(st.integers(0, len(perm)))
            order = perm[:cut]
            free = [i for i in range(-1, 7) if i not in occ]
            order.insert(draw(st.integers(0, len(order))), draw(st.sampled_from(free)))
        elif mode == 9 or not occ:
            order = "none"
        elif mode <= 3 or len(perm) < 2:
            order = perm
        elif mode <= 7:
            order = perm[: draw(st.integers(1, len(perm) - 1))]
        else:
            order = []
        labels = None
        if draw(st.integers(0, 9)) < 7:
            full = draw(st.integers(0, 2)) == 2
            chosen = [c for c in occ if full or draw(st.booleans())]
            suffix = draw(st.sampled_from(["", "a", "b"]))
            labels = {str(c): f"L{c}{suffix}" for c in chosen}
            if draw(st.integers(0, 5)) == 0:
                labels[str(draw(st.sampled_from([i for i in range(-1, 9) if i not in occ])))] = "Xout"
        outer = None
        if draw(st.integers(0, 9)) < 7:
            outer = [draw(st.sampled_from(pos)) for _ in range(4)]
        return {"program": program, "order": order, "labels": labels, "compact": draw(st.integers(0, 2)) < 2,
                "outer": outer, "unroll": draw(st.integers(0, 1)) == 0, "observe_first": draw(st.integers(0, 1)) == 0,
                # the unfinished circuit is drawn once before the top-level item of this number is added (None: never)
                "early_plot": draw(st.none() | st.integers(1, 6))}
    return case()


def strat_drawable():
    return case_strategy(DRAWABLE, False)


TWO_QUBIT_DENSE = ["CPhase", "CPhase", "CPhase", "VirtualTwoQubitVacant", "Rx180", "Wait", "Reset", "DispersiveMeasure"]


def strat_two_qubit_dense():
    """Mostly two-qubit gates on four qubits: several of them share a start time, in any listing order."""
    return case_strategy(TWO_QUBIT_DENSE, False)


def strat_any_kind():
    return case_strategy(P.ALL_KINDS, False)


def strat_unknown():
    return case_strategy(DRAWABLE, True)


# ------------------------------------------------------------------------------------------------------------------
# observation helpers
# ------------------------------------------------------------------------------------------------------------------
def _dc():
    from qce_circuit.visualization.visualize_circuit import display_circuit as dc
    return dc


def vis_registry_values() -> List[float]:
    from qce_circuit.structure.registry_duration import GlobalRegistryKey as K
    reg = _dc().VISUALIZATION_DURATION_REGISTRY
    return [float(reg[K.READOUT]), float(reg[K.MICROWAVE]), float(reg[K.FLUX]), float(reg[K.RESET])]


def current_lookup():
    from qce_circuit.structure.registry_duration import GlobalDurationRegistry
    return GlobalDurationRegistry.__dict__["get_registry_at"]


def reported_globals() -> List[float]:
    """Durations the library currently reports for the four global kinds (through a fresh GlobalDurationStrategy)."""
    from qce_circuit.structure.registry_duration import GlobalDurationStrategy, GlobalRegistryKey as K
    return [float(GlobalDurationStrategy(k).get_variable_duration(None)) for k in (K.READOUT, K.MICROWAVE, K.FLUX, K.RESET)]


class Capture:
    """Wraps display_circuit.plot_circuit_description for one call: records the description that is really drawn and
    its draw components (positions are fixed at construction), then draws as usual."""

    def __init__(self):
        self.description = None
        self.components = None
        self.calls = 0

    def __enter__(self):
        dc = _dc()
        self._orig = dc.plot_circuit_description
        cap = self

        def wrapper(description, **kwargs):
            cap.calls += 1
            cap.description = description
            cap.components = list(description.get_operation_draw_components())
            return cap._orig(description=description, **kwargs)
        dc.plot_circuit_description = wrapper
        return self

    def __exit__(self, *exc):
        _dc().plot_circuit_description = self._orig
        return False


def component_entry(comp, spacing: float) -> Tuple[Optional[float], Tuple, str]:
    """(left edge x, sorted row indices, problem) of one draw component."""
    if hasattr(comp, "main_transform_block") and hasattr(comp, "second_transform_block"):
        blocks = [comp.main_transform_block, comp.second_transform_block]
    elif hasattr(comp, "multiple_transforms"):
        blocks = list(comp.multiple_transforms)
    else:
        blocks = [comp.rectilinear_transform]
    xs, rows, problem = [], [], ""
    for b in blocks:
        p = b.left_pivot
        xs.append(float(p.x))
        r = -float(p.y) / spacing
        if abs(r - round(r)) > 1e-6:
            problem = f"{type(comp).__name__}: y={p.y} is not on a row (spacing {spacing})"
        rows.append(int(round(r)))
    if xs and max(xs) - min(xs) > TOL:
        problem = f"{type(comp).__name__}: blocks at different x {xs}"
    return (xs[0] if xs else None), tuple(sorted(rows)), problem


def bipartite(left: List[Any], right: List[Any], ok) -> List[Optional[int]]:
    """Maximum matching; returns for each left index the matched right index or None."""
    match_r: Dict[int, int] = {}

    def aug(i, seen):
        for j in range(len(right)):
            if j in seen or not ok(left[i], right[j]):
                continue
            seen.add(j)
            if j not in match_r or aug(match_r[j], seen):
                match_r[j] = i
                return True
        return False
    for i in range(len(left)):
        aug(i, set())
    out: List[Optional[int]] = [None] * len(left)
    for j, i in match_r.items():
        out[i] = j
    return out


# ------------------------------------------------------------------------------------------------------------------
# expected schedule
# ------------------------------------------------------------------------------------------------------------------
def expected_schedule(ctx, program, twin, unroll: bool, g_outer, g_draw, draw_ctx):
    """[(item, start, end)] for every listed operation under the drawing's durations, and which oracle produced it.
    `twin` holds never-plotted circuits built (and unrolled) exactly like the plotted one, plus a never-unrolled one."""
    if program is None:
        return _library_times(ctx, twin, unroll, draw_ctx), "library"
    dreg = program.get("dreg", {})
    root = M.build(program)
    try:
        O.match(root, twin["probe"].circuit_structure, g_outer, dreg)      # follows the implementation's tie choices
        tree = root
        if unroll:
            tree, info = M.unroll(root, g_outer, dreg)
            if info["ambiguous"]:
                raise O.BudgetExhausted()
            O.match(tree, twin["unrolled"].circuit_structure, g_outer, dreg)
        M.schedule(tree, g_draw, dreg)
        return [(n.item, float(n.start), float(n.end)) for n in tree.leaves()], "model"
    except (O.Mismatch, O.BudgetExhausted) as e:
        ctx.note(f"oracle-fallback:{type(e).__name__}")
    return _library_times(ctx, twin, unroll, draw_ctx), "library"


def _library_times(ctx, twin, unroll, draw_ctx):
    """What a never-plotted twin itself reports under the drawing's durations (relations are a C01 matter)."""
    out = None
    circ = twin["unrolled"] if unroll else twin["built"]
    with ctx.lib("twin times under the drawing's durations"):
        with draw_ctx():
            out = [(lib_item(o), float(o.start_time), float(o.end_time)) for o in circ.operations]
    return out


def lib_item(op) -> Dict[str, Any]:
    """Minimal item (kind, qubits, duration placeholder) of a library operation, for the fall-back oracle."""
    k = type(op).__name__
    if hasattr(op, "control_qubit_index"):
        q = [op.control_qubit_index, op.target_qubit_index]
    elif hasattr(op, "qubit_indices"):
        q = list(op.qubit_indices)
    else:
        q = [op.qubit_index]
    return {"k": k, "q": q}


# ------------------------------------------------------------------------------------------------------------------
# known-finding predicates
# ------------------------------------------------------------------------------------------------------------------
@findings.predicate("c18_two_qubit_offset_scales_with_duration_squared")
def _pred_offset(case, facts) -> bool:
    """The drawing matches the schedule exactly once two-qubit gates that share a start time and are longer than 1 may
    sit duration^2/4 (instead of the documented duration/4) from their start; nothing else is misplaced."""
    return bool(facts.get("fits_with_quarter_duration_squared"))


# ------------------------------------------------------------------------------------------------------------------
# bodies
# ------------------------------------------------------------------------------------------------------------------
def classify(case, program, occ, unknown: bool):
    st = P.stats(program)
    order, labels, outer = case["order"], case["labels"], case["outer"]
    if order == "none":
        okind = "none"
    elif unknown:
        okind = "unknown"
    elif len(order) == len(occ):
        okind = "permutation"
    elif len(order) == 0:
        okind = "empty"
    else:
        okind = "prefix"
    if labels is None:
        lkind = "none"
    else:
        known = [k for k in labels if int(k) in occ]
        lkind = ("full" if len(known) == len(occ) else "partial") + ("+unoccupied" if len(known) < len(labels) else "")
    differs = outer is not None and [float(x) for x in outer] != VIS_G
    reorders = order != "none" and list(order) != occ[: len(order)]
    nontrivial = len(occ) >= 2 and differs and (reorders or unknown)
    classes = [f"order={okind}", f"labels={lkind}", f"compact={case['compact']}", f"outer_differs={differs}",
               f"unroll={case['unroll']}", f"observe_first={case['observe_first']}", f"channels={len(occ)}",
               f"nesting={st['nesting']}", f"reps={st['n_reps_gt1'] > 0}", f"explicit={st['n_explicit'] > 0}",
               f"reorders={reorders}"]
    return nontrivial, classes, st


def build_pair(ctx, make, unroll: bool):
    """The circuit to plot and a twin, both built (and unrolled) the same way, inside the outer override. The twin also
    carries a never-unrolled 'probe' build (apply_modifiers works in place) used to read off implicit tie choices."""
    out = []
    for _ in range(2):
        d = None
        with ctx.lib("build" + (" + apply_modifiers" if unroll else "")):
            c = make()
            d = {"built": c}
            if unroll:
                d["unrolled"] = c.apply_modifiers()
        if d is None or (unroll and "unrolled" not in d):
            return None, None
        out.append(d)
    probe = None
    with ctx.lib("build"):
        probe = make() if unroll else out[1]["built"]
    if probe is None:
        return None, None
    out[1]["probe"] = probe
    return out[0], out[1]


def label_map(labels) -> Optional[Dict[int, str]]:
    return None if labels is None else {int(k): v for k, v in sorted(labels.items(), key=lambda kv: int(kv[0]))}


def check_unchanged(ctx, what, circ, fp_ref, fp_before, lookup_before, g_outer, facts):
    """Circuit observers and global lookup after the call, evaluated under the (still active) outer durations."""
    if current_lookup() is not lookup_before:
        ctx.fail("lookup-not-restored", f"{what}: GlobalDurationRegistry.get_registry_at is not the function that was "
                 f"installed before the call", facts)
    want = [float(x) for x in (g_outer or P.DEFAULT_G)]
    got = None
    with ctx.lib("global durations after the call"):
        got = reported_globals()
    if got is not None and any(abs(a - b) > TOL for a, b in zip(got, want)):
        ctx.fail("durations-changed", f"{what}: global durations read {got} afterwards, {want} were in force", facts)
    after = None
    with ctx.lib("observe after the call"):
        after = fingerprint(circ)
    if after is None:
        return
    if fp_before is not None:
        d = fp_diff(fp_before, after)
        if d is None and fp_before["rels"] != after["rels"]:
            d = f"relation types {fp_before['rels']} vs {after['rels']}"
        if d:
            ctx.fail("circuit-changed", f"{what} changed the circuit (same object before/after): {d}", facts)
    d = fp_diff(fp_ref, after)
    if d:
        ctx.fail("circuit-differs-from-twin", f"after {what} the circuit differs from a never-plotted twin: {d}", facts)


def body(case, ctx, unknown: bool = False):
    program = case["program"]
    occ = occupied(program)
    nontrivial, classes, st = classify(case, program, occ, unknown)
    early = case.get("early_plot")
    if early is not None and early >= len(program["top"]["items"]):
        early = None
    ctx.case(case, nontrivial=nontrivial, classes=classes + [f"early_plot={early is not None}"])
    calls = [0]

    def peek(decl, p, it):
        import matplotlib.pyplot as plt
        if len(p) == 1 and p[0] == early and len(decl.operations) > 0:
            before = list(plt.get_fignums())
            try:
                _dc().plot_circuit(decl)
            finally:
                for n in [n for n in plt.get_fignums() if n not in before]:
                    plt.close(n)

    def make():
        # only the circuit that is drawn and judged later gets the early drawing; twin and probe are never drawn
        calls[0] += 1
        return P.build(program, peek=peek if (early is not None and calls[0] == 1) else None).circuit
    run(case, ctx, make=make, program=program, occ=occ, kinds=st["kinds"], unknown=unknown)


def run(case, ctx, make, program, occ, kinds, unknown: bool):
    """Shared core. `make()` builds a fresh circuit; `program` (or None) feeds the reference model; `occ` = occupied
    channel ids if known from the case, else None (then read off a never-plotted twin, and `order`/`labels` are specs)."""
    import matplotlib.pyplot as plt
    from qce_circuit.structure.registry_duration import temporary_override_get_registry_at, GlobalRegistryKey as K
    dc = _dc()
    unroll, compact = case["unroll"], case["compact"]
    g_outer = case["outer"]
    env.original_global_lookup()
    if vis_registry_values() != VIS_G:
        ctx.note("drawing-durations-differ-from-2-1-1-2")
    vis = vis_registry_values()
    g_draw = vis if compact else (g_outer or list(P.DEFAULT_G))
    facts: Dict[str, Any] = {"compact": compact, "unroll": unroll, "kinds": kinds}

    def draw_ctx():
        import contextlib
        if not compact:
            return contextlib.nullcontext()
        return temporary_override_get_registry_at({K.READOUT: vis[0], K.MICROWAVE: vis[1], K.FLUX: vis[2], K.RESET: vis[3]})

    try:
        with P.global_override(None if g_outer is None else [float(x) for x in g_outer]):
            main, twin = build_pair(ctx, make, unroll)
            if main is None:
                return
            circ = main["unrolled"] if unroll else main["built"]
            tcirc = twin["unrolled"] if unroll else twin["built"]
            fp_ref = None
            with ctx.lib("observe twin"):
                fp_ref = fingerprint(tcirc)
            if fp_ref is None:
                return
            if occ is None:
                occ = []
                for sig in fp_ref["sigs"]:
                    for q, _ in sig[1]:
                        if q not in occ:
                            occ.append(q)
                order, labels = resolve_specs(case["order"], case["labels"], occ)
            else:
                order = None if case["order"] == "none" else list(case["order"])
                labels = label_map(case["labels"])
            fp_before = None
            if case["observe_first"]:
                with ctx.lib("observe before plotting"):
                    fp_before = fingerprint(circ)
                if fp_before is None:
                    return
            lookup_before = current_lookup()
            figs_before = list(plt.get_fignums())

            if unknown:
                raised = None
                fig = None
                try:
                    fig, _ = dc.plot_circuit(circ, channel_order=order, channel_map=labels, compact_visualization=compact)
                except Exception as e:          # the rejection the property asks for
                    raised = e
                left_open = [n for n in plt.get_fignums() if n not in figs_before]
                for n in left_open:
                    plt.close(n)
                if raised is None:
                    ctx.fail("unknown-channel-drawn", f"order {order} names a channel that is not occupied "
                             f"(occupied {sorted(occ)}) but plot_circuit returned a figure", facts)
                else:
                    ctx.note(f"unknown-channel-error={type(raised).__name__}")
                    if left_open:
                        ctx.fail("unknown-channel-figure-left-open", f"order {order} was rejected with "
                                 f"{type(raised).__name__} but {len(left_open)} figure(s) stayed open", facts)
                check_unchanged(ctx, "the rejected plot_circuit call", circ, fp_ref, fp_before, lookup_before, g_outer, facts)
                return

            # ---- the drawing itself
            fig = None
            fig_size = None
            extra: List[int] = []
            cap = Capture()
            try:
                with ctx.lib("plot_circuit"):
                    with cap:
                        fig, _ax = dc.plot_circuit(circ, channel_order=order, channel_map=labels, compact_visualization=compact)
            finally:          # never leave a figure behind, whatever happened
                new_figs = [n for n in plt.get_fignums() if n not in figs_before]
                if fig is not None:
                    fig_size = [float(x) for x in fig.get_size_inches()]
                extra = [n for n in new_figs if fig is None or n != fig.number]
                for n in new_figs:
                    plt.close(n)
            if fig is None:
                check_unchanged(ctx, "the failed plot_circuit call", circ, fp_ref, fp_before, lookup_before, g_outer, facts)
                return
            if extra:
                ctx.fail("extra-figures", f"plot_circuit opened {len(extra)} figure(s) besides the returned one", facts)
            check_unchanged(ctx, "plot_circuit", circ, fp_ref, fp_before, lookup_before, g_outer, facts)

            # ---- what was drawn
            description, components = cap.description, cap.components
            if description is None:
                ctx.note("description-not-captured")
                with ctx.lib("construct_visual_description"):
                    with draw_ctx():
                        description = dc.construct_visual_description(circ, order, labels)
                        components = list(description.get_operation_draw_components())
                if description is None or components is None:
                    return
            expected, oracle = expected_schedule(ctx, program, twin, unroll, g_outer, g_draw, draw_ctx)
            if expected is None:
                return
            facts["oracle"] = oracle
            check_rows_and_labels(ctx, description, order, labels, occ, facts)
            check_size(ctx, description, fig_size, expected, facts)
            check_placement(ctx, description, components, expected, facts)
            check_painted(ctx, components, float(description.channel_spacing), facts)
    finally:
        if not env.global_lookup_restored():
            env.force_restore_global_lookup()
            ctx.fail("lookup-not-restored", "after the case the global duration lookup is not the library's original "
                     "function (forced back by the harness)", facts)


def check_rows_and_labels(ctx, description, order, labels, occ, facts):
    rows = list(description.channel_indices)
    req = list(order or [])
    if rows[: len(req)] != req:
        ctx.fail("row-order", f"requested order {req}, rows are {rows}", facts)
    rest = rows[len(req):]
    want_rest = sorted(c for c in occ if c not in req)
    if sorted(rest) != want_rest:
        ctx.fail("row-set", f"rows {rows}: after the requested {req} expected each of {want_rest} once, got {rest}", facts)
    ctx.note("rest-in-first-occurrence-order=" + str(rest == [c for c in occ if c not in req]))
    for i, ch in enumerate(rows):
        name = None
        with ctx.lib("get_channel_header"):
            name = description.get_channel_header(index=i).channel_name
        if name is None:
            return
        if labels is not None and ch in labels:
            if name != labels[ch]:
                ctx.fail("label", f"row {i} shows channel {ch} and is labelled {name!r}; the label map says {labels[ch]!r} "
                         f"(rows {rows}, map {labels})", facts)
        elif name not in (str(ch), f"# {ch}"):
            ctx.fail("label", f"row {i} shows channel {ch}, which has no entry in the label map {labels}, and is "
                     f"labelled {name!r}", facts)


def check_size(ctx, description, fig_size, expected, facts):
    latest = max([e for _, _, e in expected] or [0.0])
    want_w = max(1.0, latest) + 1.0
    got_w = float(description.channel_width)
    if abs(got_w - want_w) > TOL:
        ctx.fail("width", f"latest end under the drawing's durations is {latest}: width should be {want_w}, "
                 f"description says {got_w} (oracle {facts.get('oracle')})", dict(facts, latest=latest))
    want_h = float(description.channel_spacing) * len(description.channel_indices)
    if fig_size is not None and (abs(fig_size[0] - want_w) > 1e-6 or abs(fig_size[1] - want_h) > 1e-6):
        ctx.fail("figure-size", f"figure is {fig_size}, expected [{want_w}, {want_h}] (latest end {latest}, "
                 f"{len(description.channel_indices)} rows)", dict(facts, latest=latest))


def check_painted(ctx, components, spacing: float, facts):
    """What is actually painted: every component is drawn once more on a scratch Axes; the lines and patches it adds must
    reach every row the component belongs to (from the centre of its top row to the centre of its bottom row) and stay
    inside the rows' band."""
    import matplotlib.pyplot as plt
    import numpy as np
    if not any(len(component_entry(c, spacing)[1]) >= 2 for c in components):
        return
    fig, ax = plt.subplots()
    try:
        for comp in components:
            _, rows, problem = component_entry(comp, spacing)
            if problem or len(rows) < 2:
                continue                     # (one-row components cannot miss a row; skipping them keeps the check cheap)
            n_lines, n_patches = len(ax.lines), len(ax.patches)
            try:
                comp.draw(ax)
            except Exception as e:          # noqa: BLE001
                ctx.fail(f"raised:{type(e).__name__}", f"drawing {type(comp).__name__} on rows {rows}: {type(e).__name__}: {e}", facts)
                continue
            ys = []
            for line in ax.lines[n_lines:]:
                ys.extend(float(v) for v in np.asarray(line.get_ydata(), dtype=float).ravel())
            for patch in ax.patches[n_patches:]:
                verts = patch.get_patch_transform().transform(patch.get_path().vertices)
                ys.extend(float(v) for v in verts[:, 1])
            if not ys:
                continue                     # text-only component
            top_centre, bottom_centre = -min(rows) * spacing, -max(rows) * spacing
            band_top, band_bottom = top_centre + 0.5 * spacing + 1e-6, bottom_centre - 0.5 * spacing - 1e-6
            if max(ys) < top_centre - 1e-6 or min(ys) > bottom_centre + 1e-6:
                ctx.fail("painted-extent", f"{type(comp).__name__} on rows {list(rows)} is painted from y={max(ys)} to y={min(ys)}: it does "
                         f"not reach row {min(rows) if max(ys) < top_centre - 1e-6 else max(rows)} (row centres {top_centre} .. {bottom_centre})", facts)
            elif max(ys) > band_top or min(ys) < band_bottom:
                ctx.fail("painted-extent", f"{type(comp).__name__} on rows {list(rows)} is painted from y={max(ys)} to y={min(ys)}, outside "
                         f"the band of its rows ({band_top} .. {band_bottom})", facts)
    finally:
        plt.close(fig)


def check_placement(ctx, description, components, expected, facts):
    rows = list(description.channel_indices)
    spacing = float(description.channel_spacing)
    pos = {ch: i for i, ch in enumerate(rows)}
    if abs(spacing - 1.2 * float(description.channel_height)) > TOL:
        ctx.note("channel-spacing-not-1.2-height")
    # actual
    actual = []
    for c in components:
        x, r, problem = component_entry(c, spacing)
        if problem:
            ctx.fail("component-geometry", problem, facts)
        actual.append({"x": x, "rows": r, "cls": type(c).__name__})
    # expected (drawable kinds), with tolerance flags
    starts_2q: Dict[float, int] = {}
    for it, s, _ in expected:
        if it["k"] in GROUPED_2Q:
            starts_2q[round(s, 9)] = starts_2q.get(round(s, 9), 0) + 1
    exp, loose = [], []
    for it, s, e in expected:
        if any(q not in pos for q in it["q"]):
            continue          # reported by row-set
        if not it["q"]:
            continue          # an operation on no qubit (barrier over an empty list) has no row: nothing to draw
        entry = {"x": s, "rows": tuple(sorted(pos[q] for q in it["q"])), "k": it["k"], "dur": e - s,
                 "tol": (e - s) / 4.0 if (it["k"] in DRAWN_2Q and starts_2q.get(round(s, 9), 0) >= 2) else 0.0,
                 "cls": DRAWN_2Q.get(it["k"])}       # the two drawn two-qubit kinds are told apart by their component
        if it["k"] in UNASSERTED:
            loose.append(entry)
        else:
            exp.append(entry)
    ctx.note(f"oracle={facts.get('oracle')}")
    if any(e["tol"] > 0 for e in exp):
        ctx.note("two-qubit-gates-sharing-a-start")
    if any(e["x"] < 0 for e in exp):
        ctx.note("operation-starting-before-0")

    def residual(widen: bool):
        def fits(e, a):
            tol = e["tol"]
            if widen and tol > 0:
                tol = max(tol, e["dur"] * e["dur"] / 4.0)
            return (e["rows"] == a["rows"] and abs(e["x"] - a["x"]) <= tol + TOL
                    and (e["cls"] is None or e["cls"] == a["cls"]))
        m = bipartite(exp, actual, fits)
        missing = [exp[i] for i, j in enumerate(m) if j is None]
        used = {j for j in m if j is not None}
        surplus = [a for j, a in enumerate(actual) if j not in used]
        # surplus components may stem from kinds whose placement is not asserted (any subset of their rows, at start)
        if surplus and loose:
            def loose_fits(a, l):
                return abs(a["x"] - l["x"]) <= TOL and set(a["rows"]) <= set(l["rows"]) and len(a["rows"]) >= 1
            m2 = bipartite(surplus, loose, loose_fits)
            surplus = [a for i, a in enumerate(surplus) if m2[i] is None]
        return missing, surplus
    missing, surplus = residual(False)
    if not missing and not surplus:
        return
    f = dict(facts)
    kind = "placement"
    if any(e["tol"] > 0 and e["dur"] > 1.0 for e in exp):
        wm, ws = residual(True)
        if not wm and not ws:
            # everything fits once shared-start two-qubit gates longer than 1 may sit duration^2/4 from their start
            kind = "placement-two-qubit-offset"
            f["fits_with_quarter_duration_squared"] = True

    def show(e):
        return f"{e.get('k', e.get('cls'))}@x={e['x']} rows={list(e['rows'])}" + (f" (+-{e['tol']})" if e.get("tol") else "")
    ctx.fail(kind, f"rows {rows} (oracle {facts.get('oracle')}): {len(exp)} drawable operations, {len(actual)} components; "
             f"not drawn where expected: {[show(e) for e in missing[:4]]}; drawn elsewhere: {[show(a) for a in surplus[:4]]}", f)


def body_unknown(case, ctx):
    body(case, ctx, unknown=True)


# ------------------------------------------------------------------------------------------------------------------
# library circuits
# ------------------------------------------------------------------------------------------------------------------
def resolve_specs(order_spec, label_spec, occ):
    """Channel order / label map of a library case, derived from the occupied ids (sorted = natural order)."""
    ids = sorted(occ)
    order = {"none": None, "reverse": ids[::-1], "rotate": ids[1:] + ids[:1], "last_two": ids[-2:][::-1],
             "unknown": ids[:1] + [max(ids + [0]) + 3]}[order_spec]
    labels = {"none": None, "all": {c: f"Q{c}" for c in ids}, "odd": {c: f"Q{c}" for c in ids if c % 2}}[label_spec]
    return order, labels


def items_library(tier):
    specs = [{"ctor": "repcode", "d": 2, "cycles": 0}, {"ctor": "repcode", "d": 2, "cycles": 2},
             {"ctor": "repcode", "d": 3, "cycles": 1}, {"ctor": "simplified", "d": 3, "cycles": 2},
             {"ctor": "multi", "d": 2, "rounds": [0, 2, 1]}, {"ctor": "calibration", "d": 3, "type": "QUTRIT"}]
    if tier != "quick":
        specs += [{"ctor": "repcode", "d": 3, "cycles": 4}, {"ctor": "repcode", "d": 4, "cycles": 2},
                  {"ctor": "simplified", "d": 2, "cycles": 6}, {"ctor": "multi", "d": 3, "rounds": [3, 0]},
                  {"ctor": "calibration", "d": 2, "type": "QUBIT"}]
    outers = [None, [0.5, 0.25, 1.5, 1.0], [3.0, 0.5, 0.25, 1.5]]
    orders = ["reverse", "rotate", "last_two", "none"]
    i = 0
    for spec in specs:
        for unroll in (False, True):
            for compact in ((True, False) if tier != "quick" else (True,)):
                for outer in (outers if tier != "quick" else outers[1:2]):
                    i += 1
                    yield {"lib": spec, "order": orders[i % 4], "labels": ["all", "odd", "none"][i % 3],
                           "compact": compact if tier != "quick" else (i % 3 != 0), "outer": outer, "unroll": unroll,
                           "observe_first": i % 2 == 0}
        yield {"lib": spec, "order": "unknown", "labels": "none", "compact": True, "outer": outers[1], "unroll": False,
               "observe_first": True}


def body_library(case, ctx):
    from .c07 import build_library
    spec = case["lib"]
    unknown = case["order"] == "unknown"
    differs = case["outer"] is not None
    ctx.case(case, nontrivial=differs and case["order"] != "none", classes=[
        f"library={spec['ctor']}", f"order={case['order']}", f"labels={case['labels']}", f"compact={case['compact']}",
        f"outer_differs={differs}", f"unroll={case['unroll']}", f"observe_first={case['observe_first']}"])
    run(case, ctx, make=lambda: build_library(spec), program=None, occ=None, kinds=[spec["ctor"]], unknown=unknown)


def parts():
    return [
        Part("drawable", body, strategy=strat_drawable, quick=600, thorough=1500),
        Part("two_qubit_dense", body, strategy=strat_two_qubit_dense, quick=200, thorough=600),
        Part("any_kind", body, strategy=strat_any_kind, quick=150, thorough=400),
        Part("unknown_channel", body_unknown, strategy=strat_unknown, quick=150, thorough=300),
        Part("library", body_library, items=items_library),
    ]
