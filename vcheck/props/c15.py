"""C15 - the OpenQL export is the in-order image of the circuit."""
from __future__ import annotations

import os
import re
import shutil
import tempfile

from .. import observe as O
from .. import programs as P
from ..harness import Part, HarnessError

PROPERTY_ID = "C15"
RULE = ("recorded: Hypothesis build programs (<= 7 items per circuit, nesting <= 2, 4 qubits) over all 26 operation kinds "
        "(13 exported, 13 not), repetition counts 1..3 on sub-circuits, waits with integer durations, built and exported under a generated global duration setting (a third of the cases; values from {.25,.5,1,1.5,2,3,7}, so also below one time unit), sibling sub-circuits "
        "with identical content (same derived names); in about half of the cases the unfinished circuit is also exported once before a generated top-level item is added (that export = translated listing of the prefix). to_openql runs against a recording platform (test double for "
        "PlatformManager.construct_program / construct_kernel that logs gate / cz / barrier / wait / add_kernel / "
        "add_program / add_for and, like OpenQL, rejects a duplicate kernel name inside one program); the executed "
        "instruction sequence (sub-programs expanded where they were added, loops expanded) must equal the operation "
        "listing translated by an independent table (Reset->prepz, Rx180->x180, ..., CPhase->cz + barrier(pair) + "
        "update_ph x2, Wait keeps its duration, unsupported omitted) with each sub-circuit expanded count times at its "
        "position; exporting the same program twice yields identical program / kernel names. compiled: a subset is "
        "exported with the real OpenQL, compiled into a scratch directory and the written cQASM (kernels, foreach loops, "
        "instructions, qubits) must equal the same expectation - this also validates the test double. Non-trivial = a "
        "nested sub-circuit with exported content between two exported parent operations; distinct = canonical JSON.")
ASSUMPTIONS = [
    "the operation listing is taken as given (C02)",
    "wait durations are integers (OpenQL's wait takes an integer; fractional library durations are outside the claim)",
    "the top circuit's own repetition count is not part of the export (it is applied by apply_modifiers); counts are generated on sub-circuits only",
    "a Barrier over an empty qubit list is exported as kernel.barrier([]); the real compiler widens that to all platform qubits, which the compiled part normalises back",
    "recording double: kernel.gate / cz / barrier / wait and program.add_kernel / add_program / add_for are the only OpenQL calls the exporter may make; the compiled part checks the double against the real compiler",
]

NAME = {"Reset": "prepz", "Hadamard": "h", "Identity": "i", "DispersiveMeasure": "measure", "Rx180": "x180", "Rx90": "x90",
        "Rxm90": "mx90", "Ry180": "y180", "Ry90": "y90", "Rym90": "my90"}


def translate(op):
    """Expected executed instructions (name, qubits, duration|None) of one listed operation."""
    cls = type(op).__name__
    if cls in NAME:
        return [(NAME[cls], (op.qubit_index,), None)]
    if cls == "Barrier":
        return [("barrier", tuple(op.qubit_indices), None)]
    if cls == "Wait":
        return [("wait", (op.qubit_index,), int(op.duration))]
    if cls == "CPhase":
        c, t = op.control_qubit_index, op.target_qubit_index
        return [("cz", (c, t), None), ("barrier", (c, t), None), ("update_ph", (c,), None), ("update_ph", (t,), None)]
    return []


def expected(comp):
    direct_leaves, direct_subs, leaves = O.children(comp)
    owner = {}
    for s in direct_subs:
        for o in s.decomposed_operations():
            owner[id(o)] = s
    out, done = [], set()
    for o in leaves:
        s = owner.get(id(o))
        if s is None:
            out.extend(translate(o))
        elif id(s) not in done:
            done.add(id(s))
            out.extend(expected(s) * s.nr_of_repetitions)
    return out


# ------------------------------------------------------------------------------------------------------------------
# recording platform
# ------------------------------------------------------------------------------------------------------------------
class RecKernel:
    def __init__(self, name):
        self.name = name
        self.ops = []

    @staticmethod
    def _q(q):
        return (int(q),) if isinstance(q, int) else tuple(int(x) for x in q)

    def gate(self, name, qubits, *a, **k):
        self.ops.append((str(name), self._q(qubits), None))

    def cz(self, a, b):
        self.ops.append(("cz", (int(a), int(b)), None))

    def barrier(self, qubits):
        self.ops.append(("barrier", self._q(qubits), None))

    def wait(self, qubits, duration):
        self.ops.append(("wait", self._q(qubits), int(duration)))

    def __getattr__(self, item):
        raise HarnessError(f"recording kernel: unexpected OpenQL call kernel.{item}")


class RecProgram:
    def __init__(self, name):
        self.name = name
        self.entries = []          # ("kernel", k) | ("program", p, n)

    def kernel_names(self):
        out = []
        for e in self.entries:
            out.extend([e[1].name] if e[0] == "kernel" else e[1].kernel_names())
        return out

    def names(self):
        out = [self.name]
        for e in self.entries:
            out.extend(["k:" + e[1].name] if e[0] == "kernel" else e[1].names())
        return out

    def _reject_duplicates(self, new):
        have = set(self.kernel_names())
        for n in new:
            if n in have:
                raise RuntimeError(f"duplicate kernel name: {n}")     # what OpenQL raises
            have.add(n)

    def add_kernel(self, k):
        self._reject_duplicates([k.name])
        self.entries.append(("kernel", k))

    def add_program(self, p):
        self._reject_duplicates(p.kernel_names())
        self.entries.append(("program", p, 1))

    def add_for(self, p, iterations):
        if isinstance(p, RecKernel):
            self._reject_duplicates([p.name])
            q = RecProgram(p.name)
            q.entries.append(("kernel", p))
            p = q
        else:
            self._reject_duplicates(p.kernel_names())
        self.entries.append(("program", p, int(iterations)))

    def executed(self):
        out = []
        for e in self.entries:
            if e[0] == "kernel":
                out.extend(e[1].ops)
            else:
                out.extend(e[1].executed() * e[2])
        return out

    def __getattr__(self, item):
        raise HarnessError(f"recording program: unexpected OpenQL call program.{item}")


class recording_platform:
    def __enter__(self):
        from qce_circuit.addon_openql.platform_manager import PlatformManager
        self.pm = PlatformManager
        self.saved = (PlatformManager.__dict__["construct_program"], PlatformManager.__dict__["construct_kernel"])
        PlatformManager.construct_program = classmethod(lambda cls, name: RecProgram(name))
        PlatformManager.construct_kernel = classmethod(lambda cls, name: RecKernel(name))
        return self

    def __exit__(self, *a):
        self.pm.construct_program, self.pm.construct_kernel = self.saved
        return False


def integer_waits(program):
    for _, it in P.iter_items(program["top"]):
        if not P.is_sub(it) and it["k"] == "Wait":
            d = it["d"]
            it["d"] = ["fix", float(int(d[1] * 2) % 8)] if d[0] == "fix" else d
    for k in list(program.get("dreg", {})):
        program["dreg"][k] = float(int(program["dreg"][k]))
    return program


def cfg():
    kinds = list(P.ALL_KINDS) + ["Wait", "CPhase", "Rx180", "Barrier", "DispersiveMeasure"]
    return P.GenCfg(kinds=kinds, nq=4, max_items=7, max_depth=2, p_sub=30, p_rel=25, max_reps=3, top_reps=False,
                    globals_=True, global_zero=False, max_total_leaves=40, empty_barrier=True)


def strat():
    from hypothesis import strategies as st

    def twin(program):
        # sometimes duplicate a top-level sub-circuit so two sub-circuits derive identical names
        items = program["top"]["items"]
        subs = [i for i, it in enumerate(items) if P.is_sub(it) and not any(x.get("rel") for x in it["sub"]["items"] if not P.is_sub(x))]
        if subs and len(items) % 3 == 0:
            import copy
            items.append(copy.deepcopy(items[subs[0]]))
        return program
    # "early": export the unfinished circuit once before the top-level item of that number is added (None: single export)
    return st.tuples(P.program_strategy(cfg()).map(integer_waits).map(twin), st.none() | st.integers(0, 6)).map(
        lambda t: dict(t[0], early=t[1]))


def first_diff(a, b):
    for i, (x, y) in enumerate(zip(a, b)):
        if x != y:
            return f"position {i}: expected {x}, exported {y}; context expected {a[max(0, i - 2): i + 3]} exported {b[max(0, i - 2): i + 3]}"
    return f"length: expected {len(a)}, exported {len(b)}"


def classify(program):
    """nested sub-circuit with exported content between two exported parent operations"""
    exported = set(NAME) | {"Barrier", "Wait", "CPhase"}

    def has_export(c):
        return any((has_export(it["sub"]) if P.is_sub(it) else it["k"] in exported) for it in c["items"])
    between = False
    for c in [program["top"]] + [it["sub"] for _, it in P.iter_items(program["top"]) if P.is_sub(it)]:
        flags = [("s" if has_export(it["sub"]) else "-") if P.is_sub(it) else ("o" if it["k"] in exported else "-") for it in c["items"]]
        s = "".join(flags).replace("-", "")
        if re.search("o+s+o", s):
            between = True
    return between


def _body_recorded(case, ctx):
    from qce_circuit.addon_openql.factory_manager import to_openql
    program = case
    st = P.stats(program)
    between = classify(program)
    twins = len(program["top"]["items"]) >= 2 and any(
        P.is_sub(a) and a == b for i, a in enumerate(program["top"]["items"]) for b in program["top"]["items"][i + 1:])
    ctx.case(case, nontrivial=between, classes=[f"between={between}", f"nesting={st['nesting']}", f"reps={st['n_reps_gt1'] > 0}",
                                                f"identical_subs={twins}",
                                                f"early_export={program.get('early') is not None and program['early'] < len(program['top']['items'])}"])
    facts = {"nesting": st["nesting"], "reps": st["n_reps_gt1"] > 0, "identical_subs": twins}
    early = program.get("early")
    if early is not None and early >= len(program["top"]["items"]):
        early = None
    partial = []

    def peek(decl, p, it):
        if len(p) == 1 and p[0] == early:
            with recording_platform():
                partial.append((to_openql(decl).executed(), expected(decl.circuit_structure)))

    b = exp = None
    with ctx.lib("build"):
        b = P.build(program, peek=peek if early is not None else None)
        exp = expected(b.circuit.circuit_structure)
    if exp is None:
        return
    for got0, exp0 in partial:
        if got0 != exp0:
            ctx.fail("openql-unfinished", f"export of the circuit before item {early} was added differs from its translated listing: {first_diff(exp0, got0)}", facts)
    got = names = None
    with recording_platform():
        with ctx.lib("to_openql"):
            prog = to_openql(b.circuit)
            got = prog.executed()
            names = prog.names()
    if got is None:
        return
    if got != exp:
        ctx.fail("openql-order", f"executed instructions differ from the translated listing: {first_diff(exp, got)}", facts)
    names2 = None
    with recording_platform():
        with ctx.lib("to_openql (second build)"):
            names2 = to_openql(P.build(program).circuit).names()
    if names2 is not None and names2 != names:
        ctx.fail("openql-names", f"same circuit exported twice gives different names: {names[:4]} vs {names2[:4]}", facts)


# ------------------------------------------------------------------------------------------------------------------
# real compiler
# ------------------------------------------------------------------------------------------------------------------
CQ = {"prep_z": "prepz"}


def parse_cqasm(text):
    """Executed (name, qubits) sequence of an unscheduled cQASM 1.2 file written by OpenQL (foreach loops expanded)."""
    stack = [[]]
    counts = []
    for raw in text.splitlines():
        line = raw.split("#")[0].strip()
        if not line or line.startswith(("version", "pragma", "var", ".")):
            continue
        m = re.match(r"foreach \(\w+ = (\d+)\.\.(\d+)\) \{", line)
        if m:
            counts.append(abs(int(m.group(1)) - int(m.group(2))) + 1)
            stack.append([])
            continue
        if line == "}":
            bodyl = stack.pop()
            stack[-1].extend(bodyl * counts.pop())
            continue
        if line in ("{",):
            raise HarnessError("unexpected bundle in unscheduled cQASM")
        name, _, rest = line.partition(" ")
        qubits = tuple(int(x) for x in re.findall(r"q\[(\d+)\]", rest))
        stack[-1].append((CQ.get(name, name), qubits))
    if len(stack) != 1:
        raise HarnessError("unbalanced cQASM")
    return stack[0]


def _body_compiled(case, ctx):
    import openql as ql
    from qce_circuit.addon_openql.factory_manager import to_openql
    import qce_circuit.addon_openql.platform_manager as pm
    program = case
    st = P.stats(program)
    between = classify(program)
    ctx.case(case, nontrivial=between, classes=[f"between={between}", f"nesting={st['nesting']}", f"reps={st['n_reps_gt1'] > 0}"])
    facts = {"nesting": st["nesting"], "reps": st["n_reps_gt1"] > 0, "compiled": True}
    pm.OPENQL_LOG_LEVEL = "LOG_NOTHING"
    out_dir = tempfile.mkdtemp(prefix="vcheck-openql-")
    try:
        b = exp = None
        with ctx.lib("build"):
            b = P.build(program)
            exp = expected(b.circuit.circuit_structure)
        if exp is None:
            return
        text = None
        with ctx.lib("to_openql + compile"):
            pm.PlatformManager.openql_platform()
            ql.set_option("output_dir", out_dir)
            ql.set_option("log_level", "LOG_NOTHING")
            prog = to_openql(b.circuit, circuit_id="vcheck_prog")
            prog.compile()
            with open(os.path.join(out_dir, "vcheck_prog.qasm")) as f:
                text = f.read()
        if text is None:
            return
        got = parse_cqasm(text)
        # real OpenQL expands a barrier over no qubits to a barrier over every platform qubit (0..N-1, N >> generated qubits)
        got = [(n, () if (n == "barrier" and len(q) > 16 and q == tuple(range(len(q)))) else q) for n, q in got]
        # real OpenQL writes a zero-length wait as a barrier on the same qubits
        want = [(("barrier" if (n == "wait" and d == 0) else n), q) for n, q, d in exp]
        if got != want:
            ctx.fail("openql-compiled-order", f"compiled cQASM differs from the translated listing: {first_diff(want, got)}", facts)
    finally:
        shutil.rmtree(out_dir, ignore_errors=True)


def body_recorded(case, ctx):
    # built and exported under the program's global duration setting (None = defaults): what is exported must not depend on it
    with P.global_override(case.get("g")):
        _body_recorded(case, ctx)


def body_compiled(case, ctx):
    with P.global_override(case.get("g")):
        _body_compiled(case, ctx)


def parts():
    return [
        Part("recorded", body_recorded, strategy=strat, quick=1500, thorough=5000),
        Part("compiled", body_compiled, strategy=strat, quick=60, thorough=150),
    ]
