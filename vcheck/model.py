"""Reference model of scheduling, nesting and unrolling.  Pure Python over program data.

Never imports qce_circuit.  No caches that survive a call, no dependence on traversal order.

Semantics (from the property statements C01, C04, C06 and C19):
  * channel matching: (q,c) ~ (q',c')  <=>  q == q' and (c == c' or 'ALL' in (c, c'))
  * an item without relation is placed FOLLOWED_BY an earlier item of the same circuit that shares a channel and has
    maximal relation depth among those (any such item: ties are not defined by the property), or at the circuit start
  * start = circuit start | ref.end | ref.start | ref.end - own duration ; end = start + duration
  * a (sub-)circuit's duration = max end - min start over all contained operations, 0 if it contains none
  * unrolling n: n copies of the content; the relation-less items of copy k >= 1 are FOLLOWED_BY the latest-ending
    relation leaf (item without dependants) of what precedes in that circuit
"""
from __future__ import annotations

from typing import Any, Callable, Dict, List, Optional, Tuple

DEFAULT_G = [2.0, 1.0, 1.0, 2.0]
MW = {"Identity", "Hadamard", "Rx180", "Rx90", "Rxm90", "Ry180", "Ry90", "Rym90", "Rx180ef", "VirtualPhase", "Rphi90"}
EPS = 1e-9


def match(a: Tuple[int, str], b: Tuple[int, str]) -> bool:
    return a[0] == b[0] and (a[1] == b[1] or a[1] == "ALL" or b[1] == "ALL")


def any_match(xs, ys) -> bool:
    return any(match(x, y) for x in xs for y in ys)


def op_channels(it) -> List[Tuple[int, str]]:
    k, q = it["k"], it["q"]
    if k in MW:
        return [(q[0], "MICROWAVE")]
    if k in ("Reset", "SingleQubitOperation", "DetectorOperation", "LogicalObservableOperation"):
        return [(q[0], "ALL")]
    if k in ("Wait", "VirtualVacant", "VirtualEmpty"):
        return [(q[0], it["ch"])]
    if k == "VirtualPark":
        return [(q[0], "FLUX")]
    if k == "DispersiveMeasure":
        return [(q[0], "READOUT")]
    if k == "TwoQubitOperation":
        return [(q[0], "ALL"), (q[1], "ALL")]
    if k == "CPhase":
        return [(q[0], "FLUX"), (q[0], "MICROWAVE"), (q[1], "FLUX"), (q[1], "MICROWAVE")]
    if k == "TwoQubitVirtualPhase":
        return [(q[0], "MICROWAVE"), (q[1], "MICROWAVE")]
    if k == "VirtualTwoQubitVacant":
        return [(q[0], it["ch"]), (q[1], it["ch"])]
    if k in ("Barrier", "CoordinateShiftOperation"):
        return [(x, "ALL") for x in q]
    raise KeyError(k)


def op_duration(it, g, dreg) -> float:
    g = g or DEFAULT_G
    k = it["k"]
    if "d" in it:
        return float(it["d"][1]) if it["d"][0] == "fix" else float(dreg.get(it["d"][1], 0.0))
    if k in MW:
        return float(g[1])
    if k == "Reset":
        return float(g[3])
    if k in ("VirtualPark", "CPhase"):
        return float(g[2])
    if k == "DispersiveMeasure":
        return float(g[0])
    if k == "Barrier":
        return 0.5
    if k in ("TwoQubitVirtualPhase", "CoordinateShiftOperation", "DetectorOperation", "LogicalObservableOperation"):
        return 0.0
    raise KeyError(k)


class Node:
    """An item placed in a model circuit (operation or sub-circuit)."""
    __slots__ = ("path", "item", "circ", "index", "sub", "rel_type", "ref", "multi", "explicit", "depth",
                 "start", "end", "dur", "copy_index", "origin")

    def __init__(self, path, item, circ, index):
        self.path = path
        self.item = item
        self.circ: "MCirc" = circ
        self.index = index
        self.sub: Optional["MCirc"] = None
        self.rel_type: Optional[str] = None       # 'F' | 'S' | 'E' | None
        self.ref: Optional["Node"] = None
        self.multi: Optional[List["Node"]] = None  # unrolled copies: FOLLOWED_BY the latest of these
        self.explicit = False
        self.depth = 1
        self.start = self.end = self.dur = None
        self.copy_index = 0
        self.origin = path                         # path of the program item this node stems from

    @property
    def is_sub(self):
        return self.sub is not None

    def channels(self) -> List[Tuple[int, str]]:
        if self.sub is not None:
            return self.sub.channels()
        return op_channels(self.item)

    def leaves(self) -> List["Node"]:
        if self.sub is None:
            return [self]
        return self.sub.leaves()


class MCirc:
    def __init__(self, reps: int, owner: Optional[Node]):
        self.reps = reps
        self.owner = owner
        self.nodes: List[Node] = []

    def channels(self):
        out = []
        for n in self.nodes:
            for c in n.channels():
                if c not in out:
                    out.append(c)
        return out

    def leaves(self) -> List[Node]:
        out = []
        for n in self.nodes:
            out.extend(n.leaves())
        return out

    def all_nodes(self):
        for n in self.nodes:
            yield n
            if n.sub is not None:
                yield from n.sub.all_nodes()


def build(program) -> MCirc:
    """Model tree with explicit relations resolved; implicit ones still open (see `candidates`)."""
    def mk(circ, path, owner):
        mc = MCirc(circ.get("reps", 1), owner)
        for i, it in enumerate(circ["items"]):
            p = path + (i,)
            n = Node(p, it, mc, i)
            if "sub" in it:
                n.sub = mk(it["sub"], p, n)
            elif it.get("rel") and it["rel"][1] >= 0:
                n.rel_type = it["rel"][0]
                n.ref = mc.nodes[it["rel"][1]]
                n.explicit = True
            mc.nodes.append(n)
        return mc
    return mk(program["top"], (), None)


def candidates(node: Node) -> List[Node]:
    """Admissible implicit predecessors of a relation-less node: earlier siblings sharing a channel, of maximal depth.
    Requires the depths of all earlier siblings to be resolved."""
    mine = node.channels()
    cands = [m for m in node.circ.nodes[: node.index] if any_match(mine, m.channels())]
    if not cands:
        return []
    d = max(m.depth for m in cands)
    return [m for m in cands if m.depth == d]


def resolve(root: MCirc, choose: Optional[Callable[[Node, List[Node]], Optional[Node]]] = None):
    """Fix every implicit relation. `choose(node, candidates)` returns the candidate to follow (default: the last one
    in program order).  Returns a list of (node, candidates) for nodes that had a choice (>= 2 candidates)."""
    ties = []

    def walk(mc: MCirc):
        for n in mc.nodes:
            if n.sub is not None:
                walk(n.sub)
            if n.explicit:
                n.depth = n.ref.depth + 1
                continue
            cands = candidates(n)
            if not cands:
                n.ref, n.rel_type, n.depth = None, None, 1
                continue
            pick = choose(n, cands) if choose else cands[-1]
            if pick is None:
                pick = cands[-1]
            if len(cands) > 1:
                ties.append((n, cands))
            n.ref, n.rel_type, n.depth = pick, "F", pick.depth + 1
    walk(root)
    return ties


def schedule(root: MCirc, g, dreg, base: float = 0.0):
    """Assign start/end/dur to every node (absolute times)."""
    def rel_span(mc: MCirc) -> float:
        _place(mc, 0.0)
        lv = mc.leaves()
        if not lv:
            return 0.0
        return max(n.end for n in lv) - min(n.start for n in lv)

    def _place(mc: MCirc, circ_start: float):
        for n in mc.nodes:
            if n.sub is not None:
                n.dur = rel_span(n.sub)
            else:
                n.dur = op_duration(n.item, g, dreg)
            if n.multi is not None:
                refs = n.multi
                n.start = max(r.end for r in refs) if refs else circ_start
            elif n.ref is None:
                n.start = circ_start
            elif n.rel_type == "F":
                n.start = n.ref.end
            elif n.rel_type == "S":
                n.start = n.ref.start
            elif n.rel_type == "E":
                n.start = n.ref.end - n.dur
            else:
                raise ValueError(n.rel_type)
            n.end = n.start + n.dur
            if n.sub is not None:
                _place(n.sub, n.start)

    _place(root, base)
    return root


def span(mc: MCirc) -> float:
    lv = mc.leaves()
    if not lv:
        return 0.0
    return max(n.end for n in lv) - min(n.start for n in lv)


# ------------------------------------------------------------------------------------------------------------------
# unrolling
# ------------------------------------------------------------------------------------------------------------------
def _dependants(mc: MCirc) -> Dict[int, int]:
    """id(node) -> number of sibling nodes whose single reference is that node."""
    dep: Dict[int, int] = {}
    for n in mc.nodes:
        if n.ref is not None:
            dep[id(n.ref)] = dep.get(id(n.ref), 0) + 1
    return dep


def unroll(root: MCirc, g, dreg) -> Tuple[MCirc, Dict[str, int]]:
    """Return a new, scheduled model tree in which every repetition count is expanded.
    `info['ambiguous']` counts copy boundaries at which the leaf set that defines the next copy's start is not
    determined by the property statement (see DESIGN.md: ties / latest end not on the newest copy)."""
    info = {"ambiguous": 0, "boundaries": 0}

    def clone_block(src_nodes: List[Node], dst: MCirc, copy_index: int, multi_refs: Optional[List[Node]]):
        mapping: Dict[int, Node] = {}
        new_nodes = []
        for s in src_nodes:
            n = Node(s.path, s.item, dst, len(dst.nodes))
            n.origin = s.origin
            n.copy_index = copy_index
            n.explicit = s.ref is not None
            n.rel_type = s.rel_type
            n.depth = s.depth
            if s.ref is not None:
                n.ref = mapping[id(s.ref)]
            elif multi_refs is not None:
                n.multi = list(multi_refs)
                n.rel_type = "F"
            if s.sub is not None:
                n.sub = expand(s.sub, n)
            mapping[id(s)] = n
            dst.nodes.append(n)
            new_nodes.append(n)
        return new_nodes

    def expand(src: MCirc, owner: Optional[Node]) -> MCirc:
        dst = MCirc(1, owner)
        block = clone_block(src.nodes, dst, 0, None)
        hung: set = set()          # ids of nodes that received a later copy as dependant
        for k in range(1, src.reps):
            # schedule what exists so far to know the latest-ending leaf (relative times suffice)
            schedule_partial(dst)
            dep = _dependants(dst)
            leaves = [n for n in dst.nodes if dep.get(id(n), 0) == 0 and id(n) not in hung]
            info["boundaries"] += 1
            if not leaves:
                multi = []
            else:
                latest = max(n.end for n in leaves)
                top = [n for n in leaves if abs(n.end - latest) <= EPS]
                newest = [n for n in leaves if n.copy_index == k - 1]
                newest_max = max([n.end for n in newest], default=float("-inf"))
                if k >= 2 and newest_max < latest - EPS:
                    info["ambiguous"] += 1      # an older leaf still decides: which older leaves remain is unspecified
                hung.add(id(top[-1]))
                multi = leaves
            block = clone_block(src.nodes, dst, k, multi)
        return dst

    def schedule_partial(mc: MCirc):
        tmp_root = mc
        schedule(tmp_root, g, dreg, 0.0)

    out = expand(root, None)
    schedule(out, g, dreg, 0.0)
    return out, info


def multiset(nodes, key) -> Dict[Any, int]:
    out: Dict[Any, int] = {}
    for n in nodes:
        k = key(n)
        out[k] = out.get(k, 0) + 1
    return out
