"""Relating what a built circuit reports (public API only) to the reference model tree.

`children(composite)`  direct operations / direct sub-circuits of a composite, recovered from the public
                       `decomposed_operations()` and `get_sub_composite_operations()`.
`match(mc, composite)` order-independent bijection between model nodes and library objects that respects
                       signatures and relations (explicit: reference and type as declared; implicit: FOLLOWED_BY
                       one of the model's admissible candidates; first items: no reference inside the circuit).
                       Identity (`is` / id) only - library equality is never used.
"""
from __future__ import annotations

from typing import Any, Dict, List, Optional, Tuple

from . import model as M
from .signatures import op_sig, item_sig, close


class Mismatch(Exception):
    pass


class BudgetExhausted(Exception):
    """The search for a correspondence was cut off (highly symmetric circuits): inconclusive, not a mismatch."""


def is_composite(obj) -> bool:
    return hasattr(obj, "get_sub_composite_operations")


def children(comp) -> Tuple[List[Any], List[Any], List[Any]]:
    """(direct leaf operations, direct sub-composites, all leaves) of a composite. Lists the composite (side effect:
    relation heads are pushed into first operations, exactly as `operations` does)."""
    leaves = comp.decomposed_operations()
    subs_all = comp.get_sub_composite_operations()
    nested_ids = set()
    inner_comp_ids = set()
    for s in subs_all:
        for t in s.get_sub_composite_operations():
            inner_comp_ids.add(id(t))
    direct_subs = [s for s in subs_all if id(s) not in inner_comp_ids]
    for s in direct_subs:
        for o in s.decomposed_operations():
            nested_ids.add(id(o))
    direct_leaves = [o for o in leaves if id(o) not in nested_ids]
    return direct_leaves, direct_subs, leaves


def leaf_sig_multiset(mc: M.MCirc, g, dreg) -> Dict[Any, int]:
    out: Dict[Any, int] = {}
    for n in mc.leaves():
        s = item_sig(n.item, g, dreg)
        out[s] = out.get(s, 0) + 1
    return out


def impl_sig_multiset(ops) -> Dict[Any, int]:
    out: Dict[Any, int] = {}
    for o in ops:
        s = op_sig(o)
        out[s] = out.get(s, 0) + 1
    return out


def _sig_equal(a, b) -> bool:
    return a[0] == b[0] and a[1] == b[1] and close(a[2], b[2]) and a[3] == b[3] and a[4] == b[4]


def match(mc: M.MCirc, comp, g, dreg, budget: int = 100000) -> Dict[int, Any]:
    """Return {id(model node): library object} for every node below `mc` (recursively).
    The model must have explicit relations set; implicit ones are validated against `M.candidates` and then FIXED in
    the model to the candidate the implementation reports (node.ref / rel_type / depth are assigned here)."""
    mapping: Dict[int, Any] = {}
    rev: Dict[int, M.Node] = {}        # id(library object) -> model node, for objects matched so far
    steps = [0]

    def rel_of(obj):
        link = obj.relation_link
        ref = link.reference_node
        return ref, (link.relation_type.name if ref is not None else None)

    def match_circ(mc: M.MCirc, comp) -> bool:
        d_leaves, d_subs, _ = children(comp)
        pool: List[Any] = list(d_leaves) + list(d_subs)
        if len(pool) != len(mc.nodes):
            raise Mismatch(f"circuit at {list(mc.owner.path) if mc.owner else []}: {len(mc.nodes)} items added, "
                           f"{len(d_leaves)} operations + {len(d_subs)} sub-circuits present")
        child_ids = {id(o) for o in pool}
        used: Dict[int, bool] = {}
        sig_cache = {id(o): (op_sig(o) if not is_composite(o) else None) for o in pool}
        rel_cache = {id(o): rel_of(o) for o in pool}

        def assign(i: int) -> bool:
            steps[0] += 1
            if steps[0] > budget:
                raise BudgetExhausted()
            if i == len(mc.nodes):
                return True
            n = mc.nodes[i]
            cands_model = None
            if not n.explicit:
                cands_model = M.candidates(n)
            for o in pool:
                if used.get(id(o)):
                    continue
                if n.is_sub != is_composite(o):
                    continue
                if not n.is_sub and not _sig_equal(sig_cache[id(o)], item_sig(n.item, g, dreg)):
                    continue
                ref, rtype = rel_cache[id(o)]
                inside = ref is not None and id(ref) in child_ids
                if n.multi is not None:
                    if n.multi:
                        # which of several equally late leaves carries the next copy is not specified: accept any
                        # item of an earlier copy of this circuit; the start time is compared separately
                        src = rev.get(id(ref)) if inside else None
                        if (src is None or mapping.get(id(src)) is not ref or rtype != "FOLLOWED_BY"
                                or src.circ is not n.circ or src.copy_index >= n.copy_index):
                            continue
                    elif inside:
                        continue
                elif n.explicit:
                    if not inside or ref is not mapping.get(id(n.ref)) or rtype != M_REL[n.rel_type]:
                        continue
                    n.depth = n.ref.depth + 1
                else:
                    if cands_model:
                        if not inside or rtype != "FOLLOWED_BY":
                            continue
                        picks = [c for c in cands_model if mapping.get(id(c)) is ref]
                        if not picks:
                            continue
                        n.ref, n.rel_type, n.depth = picks[0], "F", picks[0].depth + 1
                    else:
                        if inside:
                            continue
                        n.ref, n.rel_type, n.depth = None, None, 1
                # tentatively take it
                saved = dict(mapping) if n.is_sub else None
                used[id(o)] = True
                mapping[id(n)] = o
                rev[id(o)] = n
                ok = True
                if n.is_sub:
                    try:
                        ok = match_circ(n.sub, o)
                    except Mismatch:
                        ok = False
                if ok and assign(i + 1):
                    return True
                used[id(o)] = False
                mapping.pop(id(n), None)
                if saved is not None:
                    mapping.clear()
                    mapping.update(saved)
            return False

        if not assign(0):
            raise Mismatch(describe_failure(mc, pool, g, dreg, rel_cache, child_ids))
        return True

    match_circ(mc, comp)
    return mapping


M_REL = {"F": "FOLLOWED_BY", "S": "JOINED_START", "E": "JOINED_END"}


def describe_failure(mc: M.MCirc, pool, g, dreg, rel_cache, child_ids) -> str:
    want = []
    for n in mc.nodes:
        if n.is_sub:
            want.append(f"#{n.index} sub[{len(n.sub.nodes)}]")
        else:
            r = f" {n.rel_type}->#{n.ref.index}" if (n.explicit and n.ref is not None) else (" after-latest-leaf" if n.multi else "")
            want.append(f"#{n.index} {n.item['k']}{n.item['q']}{r}")
    have = []
    for o in pool:
        ref, rt = rel_cache[id(o)]
        rdesc = "none" if ref is None else (f"{rt}->{type(ref).__name__}" + ("" if id(ref) in child_ids else "(outside)"))
        have.append(f"{type(o).__name__}{op_sig(o)[4] if not is_composite(o) else ''} rel={rdesc}")
    where = list(mc.owner.path) if mc.owner else []
    return f"no relation-respecting correspondence for circuit at {where}: added {want}; present {have}"
