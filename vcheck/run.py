"""CLI:  python -m vcheck.run <ID> [--tier quick|thorough] [--replay FILE] [--shard i/n --out FILE]

exit 0  property held on everything explored (known findings are printed as KNOWN-FINDING lines)
exit 1  'VIOLATION property=<id> replay=<path>' printed for a failure no listed finding explains
exit 2  harness error (never reported as a violation)
"""
from __future__ import annotations

import argparse
import importlib
import json
import os
import subprocess
import sys
import tempfile
import time
import traceback


def _reexec_with_hashseed():
    if os.environ.get("PYTHONHASHSEED") != "0":
        e = dict(os.environ)
        e["PYTHONHASHSEED"] = "0"
        os.execve(sys.executable, [sys.executable, "-m", "vcheck.run"] + sys.argv[1:], e)


def load_module(prop: str):
    return importlib.import_module(f"vcheck.props.{prop.lower()}")


def child_main(args) -> int:
    from . import env
    env.init()
    from .harness import Ctx, run_part, replay
    from .findings import Findings
    mod = load_module(args.prop)
    shard, nshards = (int(x) for x in args.shard.split("/"))
    ctx = Ctx(args.prop, args.tier, args.seed, shard, nshards, Findings.load())
    violations = []
    t0 = time.time()
    parts = mod.parts()
    only = set(args.part.split(",")) if args.part else None
    for part in parts:
        if only and part.name not in only:
            continue
        v = run_part(part, ctx)
        if v is not None:
            violations.append(v)
    if not env.global_lookup_restored():
        env.force_restore_global_lookup()
        raise RuntimeError("harness left the global duration lookup overridden")
    out = {"rec": ctx.rec.dump(), "violations": violations, "wall_s": time.time() - t0}
    with open(args.out, "w") as f:
        json.dump(out, f)
    return 0


def write_replay(prop: str, v: dict) -> str:
    from . import env
    from .harness import chash
    d = os.path.join(env.VERIF_DIR, "replays", prop)
    os.makedirs(d, exist_ok=True)
    path = os.path.join(d, f"{v['part']}-{chash([v['kind'], v['case']])}.json")
    with open(path, "w") as f:
        json.dump(v, f, indent=1, sort_keys=True, default=str)
    return path


def run_known_findings(prop: str, mod, tier: str, seed: int):
    """Replay committed repros. Returns (known_lines, violations)."""
    from . import env
    from .harness import Ctx, replay
    from .findings import Findings
    findings = Findings.load()
    lines, violations, stats = [], [], {"open_reproduced": 0, "open_not_reproduced": 0, "fixed_regressions_passed": 0}
    parts = {p.name: p for p in mod.parts()}
    for e in findings.for_property(prop):
        path = os.path.join(env.VERIF_DIR, e["repro"])
        with open(path) as f:
            repro = json.load(f)
        part = parts[repro["part"]]
        if e["status"] == "open":
            # replay with an empty findings list so the failure is visible
            ctx = Ctx(prop, tier, seed, 0, 1, Findings([]))
            v = replay(part, ctx, repro["case"])
            if v is not None:
                lines.append(f"KNOWN-FINDING: property={prop} {e['id']}: {e['what']}")
                stats["open_reproduced"] += 1
            else:
                stats["open_not_reproduced"] += 1
                print(f"NOTE: known finding {e['id']} no longer reproduces on this tree", file=sys.stderr)
        else:
            ctx = Ctx(prop, tier, seed, 0, 1, findings)
            v = replay(part, ctx, repro["case"])
            if v is not None:
                violations.append(v)
            else:
                stats["fixed_regressions_passed"] += 1
    return lines, violations, stats


def parent_main(args) -> int:
    from . import env
    env.init()
    from .harness import Recorder
    mod = load_module(args.prop)
    t0 = time.time()
    nshards = 1 if args.tier == "quick" else int(os.environ.get("VERIF_SHARDS", "16"))

    known_lines, violations, kstats = run_known_findings(args.prop, mod, args.tier, args.seed)

    tmpdir = tempfile.mkdtemp(prefix=f"vcheck-{args.prop}-")
    procs = []
    for i in range(nshards):
        out = os.path.join(tmpdir, f"shard{i}.json")
        cmd = [sys.executable, "-m", "vcheck.run", args.prop, "--tier", args.tier, "--seed", str(args.seed),
               "--shard", f"{i}/{nshards}", "--out", out]
        if args.part:
            cmd += ["--part", args.part]
        e = dict(os.environ)
        e["PYTHONHASHSEED"] = "0"
        errf = open(os.path.join(tmpdir, f"shard{i}.err"), "w+")     # files, not pipes: a full pipe would block a shard
        procs.append((i, out, subprocess.Popen(cmd, cwd=env.VERIF_DIR, env=e, stdout=subprocess.DEVNULL,
                                               stderr=errf, text=True), errf))
    merged = {"evaluations": 0, "nontrivial": set(), "classes": {}, "known": {}, "part_evals": {}, "samples": [],
              "notes": {}}
    harness_error = False
    # a wall-clock cap per run (hang protection only - far above any observed run; expiry = inconclusive, exit 2)
    cap = float(os.environ.get("VCHECK_RUN_TIMEOUT", "2400" if args.tier == "quick" else "21600"))
    for i, out, p, errf in procs:
        try:
            p.wait(timeout=max(1.0, cap - (time.time() - t0)))
        except subprocess.TimeoutExpired:
            p.kill()
            p.wait()
            sys.stderr.write(f"INCONCLUSIVE: shard {i} still running after {cap:.0f} s wall clock - killed (not a verdict)\n")
        errf.seek(0)
        se = errf.read()
        errf.close()
        os.remove(errf.name)
        if p.returncode != 0 or not os.path.exists(out):
            harness_error = True
            sys.stderr.write(f"HARNESS-ERROR: shard {i} exit {p.returncode}\n{se[-6000:]}\n")
            continue
        with open(out) as f:
            d = json.load(f)
        os.remove(out)
        r = d["rec"]
        merged["evaluations"] += r["evaluations"]
        merged["nontrivial"].update(r["nontrivial"])
        for key in ("classes", "known", "part_evals", "notes"):
            for k, v in r[key].items():
                merged[key][k] = merged[key].get(k, 0) + v
        if len(merged["samples"]) < 6:
            for s in r["samples"]:
                if len(merged["samples"]) < 6 and s not in merged["samples"]:
                    merged["samples"].append(s)
        violations.extend(d["violations"])
    try:
        os.rmdir(tmpdir)
    except OSError:
        pass
    if harness_error:
        return 2

    for line in known_lines:
        print(line)
    seen = set()
    rc = 0
    for v in violations:
        key = (v["part"], v["kind"])
        if key in seen:
            continue
        seen.add(key)
        path = write_replay(args.prop, v)
        print(f"VIOLATION property={args.prop} replay={path}")
        print(f"  part={v['part']} kind={v['kind']}\n  {v['detail'][:1500]}")
        rc = 1

    exhaustive = bool(getattr(mod, "EXHAUSTIVE_PARTS", None)) and all(
        p.exhaustive for p in mod.parts())
    evidence = {
        "property_id": args.prop,
        "tier": args.tier,
        "seed": args.seed,
        "level": "exploration",
        "coverage": {
            "evaluations": merged["evaluations"],
            "distinct_nontrivial": len(merged["nontrivial"]),
            "rule": mod.RULE,
            "samples": merged["samples"],
            "per_part_evaluations": merged["part_evals"],
            "class_histogram": dict(sorted(merged["classes"].items())),
            "explained_by_known_finding": merged["known"],
            "known_findings_replayed": kstats,
            "notes": merged["notes"],
            "shards": nshards,
            "exhaustive_parts": [p.name for p in mod.parts() if p.exhaustive],
        },
        "assumptions": list(getattr(mod, "ASSUMPTIONS", [])),
        "wall_s": round(time.time() - t0, 3),
        "violations": len(seen),
    }
    if exhaustive:
        evidence["coverage"]["exhaustive"] = True
    # evidence describes /repo itself; runs against another tree (mutants, seeded changes) go to a scratch directory
    ev_dir = os.path.join(env.VERIF_DIR, "evidence") if env.REPO_DIR == "/repo" else os.path.join(env.VERIF_DIR, ".scratch", "evidence")
    os.makedirs(ev_dir, exist_ok=True)
    with open(os.path.join(ev_dir, f"{args.prop}.json"), "w") as f:
        json.dump(evidence, f, indent=1, sort_keys=True, default=str)
    print(f"{args.prop} {args.tier} seed={args.seed}: {merged['evaluations']} cases, "
          f"{len(merged['nontrivial'])} distinct non-trivial, {len(seen)} violation(s), "
          f"{sum(merged['known'].values())} explained by known findings, {evidence['wall_s']} s")
    return rc


def replay_main(args) -> int:
    from . import env
    env.init()
    from .harness import Ctx, replay
    from .findings import Findings
    mod = load_module(args.prop)
    with open(args.replay) as f:
        rep = json.load(f)
    parts = {p.name: p for p in mod.parts()}
    ctx = Ctx(args.prop, args.tier, args.seed, 0, 1, Findings.load())
    v = replay(parts[rep["part"]], ctx, rep["case"])
    if v is None:
        known = sum(ctx.rec.known.values())
        print(f"replay {args.replay}: no violation" + (f" ({known} failure(s) explained by known findings)" if known else ""))
        return 0
    print(f"VIOLATION property={args.prop} replay={args.replay}")
    print(f"  part={v['part']} kind={v['kind']}\n  {v['detail'][:3000]}")
    return 1


def main() -> int:
    ap = argparse.ArgumentParser()
    ap.add_argument("prop")
    ap.add_argument("--tier", default=os.environ.get("VERIF_TIER", "quick"), choices=["quick", "thorough"])
    ap.add_argument("--seed", type=int, default=int(os.environ.get("VERIF_SEED", "1") or 1))
    ap.add_argument("--replay")
    ap.add_argument("--shard")
    ap.add_argument("--out")
    ap.add_argument("--part")
    args = ap.parse_args()
    args.prop = args.prop.upper()
    _reexec_with_hashseed()
    try:
        if args.replay:
            return replay_main(args)
        if args.shard:
            return child_main(args)
        return parent_main(args)
    except SystemExit:
        raise
    except BaseException:
        traceback.print_exc()
        print("HARNESS-ERROR (exit 2)", file=sys.stderr)
        return 2


if __name__ == "__main__":
    sys.exit(main())
