"""Shared machinery: case recorder, violation protocol, Hypothesis driver, enumeration driver.

A property module exposes

    PROPERTY_ID, RULE, ASSUMPTIONS, LEVEL_NOTE (strings / list)
    def parts() -> list[Part]

Each Part is either a Hypothesis-driven search (`strategy` + `body`) or an enumeration (`items` + `body`).
`body(case, ctx)` receives a plain-data (JSON-serialisable) case, calls `ctx.case(...)` exactly once to
classify it, and reports oracle failures through `ctx.fail(kind, detail)`.  `ctx.fail` consults the
committed known-findings list; a failure a listed finding explains is counted and execution continues,
anything else raises `Violation`, which Hypothesis then shrinks.
"""
from __future__ import annotations

import hashlib
import json
import os
import time
import traceback
from collections import Counter
from dataclasses import dataclass, field
from typing import Any, Callable, Dict, Iterable, List, Optional

from . import env


TRACE_FILE = os.environ.get("VCHECK_TRACE")
SLOW_CASE_S = float(os.environ.get("VCHECK_SLOW", "0") or 0)


class Violation(Exception):
    def __init__(self, kind: str, detail: str):
        super().__init__(f"{kind}: {detail}")
        self.kind = kind
        self.detail = detail


class HarnessError(Exception):
    pass


def canon(obj: Any) -> str:
    return json.dumps(obj, sort_keys=True, separators=(",", ":"), default=str)


def chash(obj: Any) -> str:
    return hashlib.blake2b(canon(obj).encode(), digest_size=8).hexdigest()


def size_of(obj: Any) -> int:
    return len(canon(obj))


@dataclass
class Part:
    name: str
    body: Callable[[Any, "Ctx"], None]
    strategy: Any = None                     # Hypothesis strategy (lazy: a callable returning one)
    items: Optional[Callable[[str], Iterable[Any]]] = None   # enumeration: tier -> iterable of cases
    quick: int = 200                         # examples in quick tier (Hypothesis parts)
    thorough: int = 2000                     # examples per shard in thorough tier
    exhaustive: bool = False                 # enumeration covers a finite space completely
    stateful: bool = False                   # `strategy` is a callable(ctx) -> RuleBasedStateMachine class
    steps_quick: int = 25
    steps_thorough: int = 40
    fuzz_quick: int = 0                      # additional coverage-guided (atheris / libFuzzer) executions of the same
    fuzz_thorough: int = 0                   # strategy + body per shard; 0 = none (see vcheck/fuzz.py)


class Recorder:
    MAX_SAMPLES = 6

    def __init__(self):
        self.evaluations = 0
        self.nontrivial: set = set()
        self.classes: Counter = Counter()
        self.known: Counter = Counter()
        self.part_evals: Counter = Counter()
        self._small = None      # (size, case)
        self._large = None
        self._first: List[Any] = []
        self.notes: Counter = Counter()

    def case(self, part: str, case: Any, nontrivial: bool, classes: Iterable[str] = ()):
        self.evaluations += 1
        self.part_evals[part] += 1
        for c in classes:
            self.classes[c] += 1
        if nontrivial:
            h = chash([part, case])
            if h not in self.nontrivial:
                self.nontrivial.add(h)
                s = size_of(case)
                tagged = {"part": part, "case": case}
                if self._small is None or s < self._small[0]:
                    self._small = (s, tagged)
                if self._large is None or s > self._large[0]:
                    self._large = (s, tagged)
                n = len(self.nontrivial)
                if n in (1, 7, 50, 400) and len(self._first) < 4:
                    self._first.append(tagged)

    def samples(self) -> List[Any]:
        out, seen = [], set()
        for s in ([self._small[1]] if self._small else []) + self._first + ([self._large[1]] if self._large else []):
            k = canon(s)
            if k not in seen:
                seen.add(k)
                out.append(s)
        return out[: self.MAX_SAMPLES]

    def dump(self) -> Dict[str, Any]:
        return {
            "evaluations": self.evaluations,
            "nontrivial": sorted(self.nontrivial),
            "classes": dict(self.classes),
            "known": dict(self.known),
            "part_evals": dict(self.part_evals),
            "samples": self.samples(),
            "notes": dict(self.notes),
        }


class Ctx:
    """Per-process context handed to bodies."""

    def __init__(self, prop: str, tier: str, seed: int, shard: int, nshards: int, findings):
        self.prop = prop
        self.tier = tier
        self.seed = seed
        self.shard = shard
        self.nshards = nshards
        self.rec = Recorder()
        self.findings = findings
        self.part = "?"
        self._case = None
        self.replay_mode = False

    # -- called by bodies -------------------------------------------------------------------------
    def case(self, case: Any, nontrivial: bool, classes: Iterable[str] = ()):
        self._case = case
        self.rec.case(self.part, case, nontrivial, classes)

    def note(self, what: str):
        self.rec.notes[what] += 1

    def fail(self, kind: str, detail: str, facts: Optional[Dict[str, Any]] = None):
        """Report an oracle failure. Returns normally iff a listed known finding explains it."""
        fid = self.findings.explains(self.prop, self.part, kind, self._case, facts or {})
        if fid is not None:
            self.rec.known[fid] += 1
            return
        raise Violation(kind, detail)

    def lib(self, what: str):
        """Context manager: an exception raised by library code on an in-domain input is a failure."""
        return _LibCall(self, what)


class _LibCall:
    def __init__(self, ctx: Ctx, what: str):
        self.ctx, self.what = ctx, what

    def __enter__(self):
        return self

    def __exit__(self, et, ev, tb):
        if et is None or issubclass(et, (Violation, HarnessError)):
            return False
        if not issubclass(et, Exception):
            return False
        # hypothesis control-flow exceptions must pass through
        mod = getattr(et, "__module__", "") or ""
        if mod.startswith("hypothesis"):
            return False
        frames = traceback.extract_tb(tb)
        inner = frames[-1] if frames else None
        where = f"{os.path.basename(inner.filename)}:{inner.name}" if inner else "?"
        self.ctx.fail(f"raised:{et.__name__}", f"{self.what}: {et.__name__}: {ev} at {where}",
                      {"exception": et.__name__, "where": where, "what": self.what})
        return True   # explained by a known finding -> swallow (caller must cope with missing result)


def derive_seed(seed: int, shard: int, part: str) -> int:
    h = hashlib.blake2b(f"{seed}/{shard}/{part}".encode(), digest_size=6).hexdigest()
    return int(h, 16)


def run_part(part: Part, ctx: Ctx) -> Optional[Dict[str, Any]]:
    """Run one part in this process. Returns a violation record or None."""
    ctx.part = part.name
    if part.items is not None:
        return _run_enumeration(part, ctx)
    if part.stateful:
        return _run_stateful(part, ctx)
    v = _run_hypothesis(part, ctx)
    if v is None:
        v = _run_fuzz(part, ctx)
    return v


def _run_fuzz(part: Part, ctx: Ctx) -> Optional[Dict[str, Any]]:
    """Coverage-guided campaign over the same strategy and body in a child process (atheris instruments at import)."""
    import shutil
    import subprocess
    import sys
    import tempfile
    runs = part.fuzz_quick if ctx.tier == "quick" else part.fuzz_thorough
    if runs <= 0:
        return None
    work = tempfile.mkdtemp(prefix="vcheck-fuzzrun-")
    out = os.path.join(work, "out.json")
    try:
        cmd = [sys.executable, "-m", "vcheck.fuzz", ctx.prop, part.name, "--runs", str(runs), "--seed", str(ctx.seed),
               "--out", out, "--tier", ctx.tier, "--shard", f"{ctx.shard}/{ctx.nshards}", "--corpus", os.path.join(work, "corpus")]
        e = dict(os.environ, PYTHONHASHSEED="0")
        r = subprocess.run(cmd, cwd=env.VERIF_DIR, env=e, stdout=subprocess.DEVNULL, stderr=subprocess.PIPE, text=True)
        if r.returncode == 3 or not os.path.exists(out):
            ctx.rec.notes["fuzz-unavailable"] += 1
            if r.returncode not in (3,):
                raise HarnessError(f"fuzz driver failed (exit {r.returncode}): {r.stderr[-1500:]}")
            return None
        with open(out) as f:
            d = json.load(f)
        if r.returncode not in (0, 77):
            raise HarnessError(f"fuzz driver failed (exit {r.returncode}): {r.stderr[-1500:]}")
        rec = d["rec"]
        ctx.rec.evaluations += rec["evaluations"]
        ctx.rec.nontrivial.update(rec["nontrivial"])
        for key, target in (("classes", ctx.rec.classes), ("known", ctx.rec.known), ("part_evals", ctx.rec.part_evals), ("notes", ctx.rec.notes)):
            for k, v in rec[key].items():
                target[k] += v
        ctx.rec.notes["fuzz-executions"] += d.get("calls", 0)
        return d["violations"][0] if d["violations"] else None
    finally:
        shutil.rmtree(work, ignore_errors=True)


def _violation_record(ctx: Ctx, part: Part, case: Any, v: Violation) -> Dict[str, Any]:
    return {"property": ctx.prop, "part": part.name, "kind": v.kind, "detail": v.detail[:4000], "case": case,
            "seed": ctx.seed, "tier": ctx.tier, "shard": ctx.shard}


def _run_enumeration(part: Part, ctx: Ctx) -> Optional[Dict[str, Any]]:
    for i, case in enumerate(part.items(ctx.tier)):
        if i % ctx.nshards != ctx.shard:
            continue
        env.clear_time_caches()
        try:
            part.body(case, ctx)
        except Violation as v:
            return _violation_record(ctx, part, case, v)
    return None


def _settings(n: int, **kw):
    from hypothesis import settings, HealthCheck, Phase
    return settings(
        max_examples=n, database=None, deadline=None, derandomize=False, report_multiple_bugs=False,
        suppress_health_check=list(HealthCheck), print_blob=False,
        phases=(Phase.explicit, Phase.generate, Phase.shrink), **kw)


def _run_hypothesis(part: Part, ctx: Ctx) -> Optional[Dict[str, Any]]:
    import hypothesis
    from hypothesis import given
    n = part.quick if ctx.tier == "quick" else part.thorough
    if n <= 0:
        return None
    strategy = part.strategy() if callable(part.strategy) else part.strategy
    last: Dict[str, Any] = {}

    @hypothesis.seed(derive_seed(ctx.seed, ctx.shard, part.name))
    @_settings(n)
    @given(strategy)
    def test(case):
        env.clear_time_caches()
        t0 = time.time()
        if TRACE_FILE:
            with open(TRACE_FILE, "w") as f:
                f.write(canon({"part": part.name, "case": case}))
        try:
            part.body(case, ctx)
        except Violation as v:
            last["case"], last["v"] = case, v
            raise
        finally:
            if SLOW_CASE_S and time.time() - t0 > SLOW_CASE_S:
                print(f"SLOW-CASE {time.time() - t0:.1f}s part={part.name} case={canon(case)[:3000]}", flush=True)

    try:
        test()
    except Violation:
        return _violation_record(ctx, part, last["case"], last["v"])
    return None


def _run_stateful(part: Part, ctx: Ctx) -> Optional[Dict[str, Any]]:
    import hypothesis
    from hypothesis.stateful import run_state_machine_as_test
    n = part.quick if ctx.tier == "quick" else part.thorough
    steps = part.steps_quick if ctx.tier == "quick" else part.steps_thorough
    if n <= 0:
        return None
    last: Dict[str, Any] = {}
    machine = part.strategy(ctx, last)
    machine = hypothesis.seed(derive_seed(ctx.seed, ctx.shard, part.name))(machine)
    try:
        run_state_machine_as_test(machine, settings=_settings(n, stateful_step_count=steps))
    except Violation:
        return _violation_record(ctx, part, last["case"], last["v"])
    return None


def replay(part: Part, ctx: Ctx, case: Any) -> Optional[Dict[str, Any]]:
    ctx.part = part.name
    ctx.replay_mode = True
    env.clear_time_caches()
    try:
        part.body(case, ctx)
    except Violation as v:
        return _violation_record(ctx, part, case, v)
    return None


class Timer:
    def __init__(self):
        self.t0 = time.time()

    def s(self) -> float:
        return round(time.time() - self.t0, 3)
