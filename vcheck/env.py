"""Process environment for every check: locate the repository, bootstrap Hypothesis, silence noise.

Import this module before anything from `qce_circuit`.  The repository is imported from
`$VERIF_REPO/src` (default /repo/src) which is put first on `sys.path`, so an edited working tree or a
scratch copy with a patch applied is what gets tested, never a stale install.
"""
import os
import sys
import subprocess
import warnings

VERIF_DIR = os.path.dirname(os.path.dirname(os.path.abspath(__file__)))
REPO_DIR = os.path.abspath(os.environ.get("VERIF_REPO", "/repo"))
DEPS_DIR = os.path.join(VERIF_DIR, ".deps")
WHEELS = "/opt/veriftools/wheels"
GUARD = "QCOCIRCUITS_VERIF"

os.environ.setdefault("MPLBACKEND", "Agg")
os.environ.setdefault("TQDM_DISABLE", "1")
os.environ[GUARD] = "1"          # hooks on (no source hooks exist at present; see MANIFEST.hooks)


def bootstrap_hypothesis():
    """Make `import hypothesis` work: /venv has it; otherwise install offline into /verif/.deps."""
    try:
        import hypothesis  # noqa: F401
        return
    except ImportError:
        pass
    if os.path.isdir(DEPS_DIR) and DEPS_DIR not in sys.path:
        sys.path.insert(0, DEPS_DIR)
        try:
            import hypothesis  # noqa: F401
            return
        except ImportError:
            pass
    subprocess.check_call([
        sys.executable, "-m", "pip", "install", "--quiet", "--no-index", "--find-links", WHEELS,
        "--target", DEPS_DIR, "hypothesis",
    ])
    if DEPS_DIR not in sys.path:
        sys.path.insert(0, DEPS_DIR)
    import hypothesis  # noqa: F401


def bootstrap_atheris() -> bool:
    """atheris (coverage-guided fuzzing) is optional: installed offline into /verif/.deps; False when unavailable."""
    if DEPS_DIR not in sys.path and os.path.isdir(DEPS_DIR):
        sys.path.insert(1, DEPS_DIR)
    try:
        import atheris  # noqa: F401
        return True
    except ImportError:
        pass
    try:
        subprocess.check_call([sys.executable, "-m", "pip", "install", "--quiet", "--no-index", "--find-links", WHEELS,
                               "--target", DEPS_DIR, "atheris"], stdout=subprocess.DEVNULL, stderr=subprocess.DEVNULL)
        if DEPS_DIR not in sys.path:
            sys.path.insert(1, DEPS_DIR)
        import atheris  # noqa: F401
        return True
    except Exception:
        return False


def setup_paths():
    src = os.path.join(REPO_DIR, "src")
    if not os.path.isdir(os.path.join(src, "qce_circuit")):
        print(f"HARNESS-ERROR: no qce_circuit package under {src}", file=sys.stderr)
        sys.exit(2)
    if src in sys.path:
        sys.path.remove(src)
    sys.path.insert(0, src)
    if os.path.isdir(DEPS_DIR) and DEPS_DIR not in sys.path:
        sys.path.insert(1, DEPS_DIR)


def quiet():
    warnings.filterwarnings("ignore")
    try:
        import matplotlib
        matplotlib.use("Agg")
    except Exception:
        pass


_initialised = False


def init():
    global _initialised
    if _initialised:
        return
    setup_paths()
    bootstrap_hypothesis()
    quiet()
    import qce_circuit  # noqa: F401
    quiet()             # again: the library installs its own warning filters at import
    loaded = os.path.abspath(qce_circuit.__file__)
    if not loaded.startswith(os.path.join(REPO_DIR, "src")):
        print(f"HARNESS-ERROR: qce_circuit imported from {loaded}, expected under {REPO_DIR}/src", file=sys.stderr)
        sys.exit(2)
    _initialised = True


def clear_time_caches():
    """Drop the two process-wide start-time memos (bounds memory; each case starts clean)."""
    from qce_circuit.structure.intrf_circuit_operation import RelationLink, MultiRelationLink
    RelationLink.get_start_time.cache_clear()
    MultiRelationLink.get_start_time.cache_clear()


_ORIGINAL_GLOBAL_LOOKUP = None


def original_global_lookup():
    """The un-overridden GlobalDurationRegistry.get_registry_at (captured on first use)."""
    global _ORIGINAL_GLOBAL_LOOKUP
    from qce_circuit.structure.registry_duration import GlobalDurationRegistry
    if _ORIGINAL_GLOBAL_LOOKUP is None:
        _ORIGINAL_GLOBAL_LOOKUP = GlobalDurationRegistry.__dict__["get_registry_at"]
    return _ORIGINAL_GLOBAL_LOOKUP


def global_lookup_restored() -> bool:
    from qce_circuit.structure.registry_duration import GlobalDurationRegistry
    return GlobalDurationRegistry.__dict__["get_registry_at"] is original_global_lookup()


def force_restore_global_lookup():
    from qce_circuit.structure.registry_duration import GlobalDurationRegistry
    GlobalDurationRegistry.get_registry_at = original_global_lookup()
