"""Observable fingerprints of library objects, and the matching expectations derived from program items."""
from __future__ import annotations

from typing import Any, Dict, List, Optional, Tuple

from . import model as M

TOL = 1e-9


def close(a: float, b: float) -> bool:
    return abs(a - b) <= TOL


def op_sig(op) -> Tuple:
    """(class name, channels, duration, tag, extra) of a library operation - no relation, no times."""
    cls = type(op).__name__
    chans = tuple((c.id, c.channel.name) for c in op.channel_identifiers)
    extra: Tuple = ()
    if cls == "DetectorOperation":
        extra = (op.qubit_index, op.last_acquisition_index, op.main_target, op.secondary_target, op.reference_offset, op.secondary_offset)
    elif cls == "LogicalObservableOperation":
        extra = (op.qubit_index, op.last_acquisition_index, op.main_target)
    elif cls == "CoordinateShiftOperation":
        extra = (op.time_shift, op.space_shift)
    elif hasattr(op, "control_qubit_index"):
        extra = (op.control_qubit_index, op.target_qubit_index)
    elif hasattr(op, "qubit_index"):
        extra = (op.qubit_index,)
    elif hasattr(op, "qubit_indices"):
        extra = tuple(op.qubit_indices)
    tag = getattr(op, "acquisition_tag", None)
    return (cls, chans, float(op.duration), tag, extra)


def item_sig(it, g, dreg) -> Tuple:
    """Expected op_sig of the operation a program item denotes."""
    k = it["k"]
    chans = tuple(M.op_channels(it))
    if k == "DetectorOperation":
        extra = (it["q"][0],) + tuple(it["f"])
    elif k == "LogicalObservableOperation":
        extra = (it["q"][0],) + tuple(it["f"])
    elif k == "CoordinateShiftOperation":
        extra = tuple(it["f"])
    else:
        extra = tuple(it["q"])
    tag = it.get("tag", "") if k == "DispersiveMeasure" else None
    return (k, chans, float(M.op_duration(it, g, dreg)), tag, extra)


def rel_name(op) -> Optional[str]:
    link = op.relation_link
    if link.reference_node is None:
        return None
    return link.relation_type.name


def schedule_of(ops) -> List[Tuple[float, float]]:
    return [(float(o.start_time), float(o.end_time)) for o in ops]


def fingerprint(circuit, with_indices: bool = True) -> Dict[str, Any]:
    """Everything a circuit reports that the properties speak about (listing signatures, schedule, duration,
    acquisition indices).  Lists the operations once."""
    ops = circuit.operations
    fp: Dict[str, Any] = {
        "sigs": [op_sig(o) for o in ops],
        "times": schedule_of(ops),
        "rels": [rel_name(o) for o in ops],
        "duration": float(circuit.duration),
    }
    if with_indices:
        fp["acq"] = [(o.acquisition_index, o.circuit_level_acquisition_index) for o in ops
                     if hasattr(o, "acquisition_index")]
    return fp


def fp_diff(a: Dict[str, Any], b: Dict[str, Any]) -> Optional[str]:
    """First difference between two fingerprints (times with tolerance), or None."""
    if len(a["sigs"]) != len(b["sigs"]):
        return f"listing length {len(a['sigs'])} vs {len(b['sigs'])}"
    for i, (x, y) in enumerate(zip(a["sigs"], b["sigs"])):
        if x[:2] != y[:2] or x[3:] != y[3:] or not close(x[2], y[2]):
            return f"operation #{i}: {x} vs {y}"
    for i, (x, y) in enumerate(zip(a["times"], b["times"])):
        if not (close(x[0], y[0]) and close(x[1], y[1])):
            return f"time of #{i} {a['sigs'][i][0]}: {x} vs {y}"
    if not close(a["duration"], b["duration"]):
        return f"duration {a['duration']} vs {b['duration']}"
    if "acq" in a and "acq" in b and a["acq"] != b["acq"]:
        return f"acquisition indices {a['acq']} vs {b['acq']}"
    return None
