"""Build programs: plain-data AST, Hypothesis strategies and the interpreter (public API only).

Program  := {"g": null | [readout, microwave, flux, reset],        global duration override
             "dreg": {key: value},                                  DurationRegistry entries
             "top": Circuit}
Circuit  := {"reps": n >= 1, "rmode": "fix" | "reg", "items": [Item...]}
Item     := {"k": kind, "q": [qubits], "rel": null | [type, ref_index], ...kind specific...}
          | {"sub": Circuit}
   rel type: "F" FOLLOWED_BY, "S" JOINED_START, "E" JOINED_END; ref_index < own index, same circuit.
   "ch": channel name for kinds with a selectable channel; "d": ["fix", x] | ["reg", key] for kinds with a selectable
   duration strategy; "tag": acquisition tag and "reg": how many levels up the acquisition registry is taken from
   (0 = the circuit the measurement is added to) for measurements; "f": integer fields of annotations;
   "share": index of an earlier item whose RelationLink *object* is re-used (must carry the same rel).
"""
from __future__ import annotations

from dataclasses import dataclass, field
from typing import Any, Dict, List, Optional, Tuple

REL = {"F": "FOLLOWED_BY", "S": "JOINED_START", "E": "JOINED_END"}
MW_KINDS = ["Identity", "Hadamard", "Rx180", "Rx90", "Rxm90", "Ry180", "Ry90", "Rym90", "Rx180ef", "VirtualPhase", "Rphi90"]
SELECT_1Q = ["Wait", "VirtualVacant", "VirtualEmpty"]         # selectable channel + duration strategy
GENERIC_1Q = ["SingleQubitOperation"]                         # ALL channel, selectable duration
GENERIC_2Q = ["TwoQubitOperation"]                            # ALL channel, selectable duration
TWO_Q = ["CPhase", "TwoQubitVirtualPhase", "VirtualTwoQubitVacant"]
ANNOT = ["DetectorOperation", "LogicalObservableOperation", "CoordinateShiftOperation"]
ALL_KINDS = (MW_KINDS + SELECT_1Q + GENERIC_1Q + GENERIC_2Q + TWO_Q + ANNOT
             + ["Reset", "VirtualPark", "DispersiveMeasure", "Barrier"])
NO_CTOR_RELATION = {"Barrier", "CoordinateShiftOperation"}   # `relation` is init=False for these classes
CHANNELS = ["READOUT", "MICROWAVE", "FLUX", "ALL"]
DYADIC = [0.0, 0.25, 0.5, 1.0, 1.5, 2.0, 3.0, 7.0]
DEFAULT_G = [2.0, 1.0, 1.0, 2.0]       # readout, microwave, flux, reset (config_default_operation_durations.yaml)


# ------------------------------------------------------------------------------------------------------------------
# helpers over the plain data
# ------------------------------------------------------------------------------------------------------------------
def is_sub(item) -> bool:
    return "sub" in item


def iter_items(circ, path=()):
    """Yield (path, item) for every item, depth first, in program order."""
    for i, it in enumerate(circ["items"]):
        p = path + (i,)
        yield p, it
        if is_sub(it):
            yield from iter_items(it["sub"], p)


def leaf_count(circ) -> int:
    return sum(1 for _, it in iter_items(circ) if not is_sub(it))


def unrolled_leaf_count(circ) -> int:
    n = 0
    for it in circ["items"]:
        n += unrolled_leaf_count(it["sub"]) if is_sub(it) else 1
    return n * circ.get("reps", 1)


def max_nesting(circ) -> int:
    return 1 + max([max_nesting(it["sub"]) for it in circ["items"] if is_sub(it)] or [0])


def stats(program) -> Dict[str, Any]:
    top = program["top"]
    items = list(iter_items(top))
    leaves = [it for _, it in items if not is_sub(it)]
    subs = [it for _, it in items if is_sub(it)]
    return {
        "n_leaves": len(leaves),
        "n_subs": len(subs),
        "nesting": max_nesting(top) - 1,
        "n_explicit": sum(1 for it in leaves if it.get("rel") and it["rel"][1] >= 0),
        "n_dangling": sum(1 for it in leaves if it.get("rel") and it["rel"][1] < 0),
        "rel_types": sorted({it["rel"][0] for it in leaves if it.get("rel") and it["rel"][1] >= 0}),
        "n_zero": sum(1 for it in leaves if it.get("d") == ["fix", 0.0] or it["k"] in ("DetectorOperation", "LogicalObservableOperation", "CoordinateShiftOperation", "TwoQubitVirtualPhase")),
        "max_reps": max([top.get("reps", 1)] + [s["sub"].get("reps", 1) for s in subs]),
        "n_reps_gt1": sum(1 for s in subs if s["sub"].get("reps", 1) > 1) + (1 if top.get("reps", 1) > 1 else 0),
        "n_measure": sum(1 for it in leaves if it["k"] == "DispersiveMeasure"),
        "kinds": sorted({it["k"] for it in leaves}),
        "global": program.get("g") is not None,
        "shared_link": any("share" in it for it in leaves),
    }


# ------------------------------------------------------------------------------------------------------------------
# generator configuration and strategies
# ------------------------------------------------------------------------------------------------------------------
@dataclass
class GenCfg:
    kinds: List[str] = field(default_factory=lambda: list(ALL_KINDS))
    nq: int = 4
    max_items: int = 8
    min_items: int = 0
    max_depth: int = 2            # nesting levels below the top circuit
    p_sub: int = 22               # percent chance that an item is a sub-circuit
    p_rel: int = 40               # percent chance of an explicit relation (when an earlier item exists)
    rel_types: str = "FSE"
    rel_to_sub: bool = True       # explicit relations may reference a sub-circuit
    max_reps: int = 1
    top_reps: bool = False
    reg_reps: bool = False        # allow registry-provided repetition counts
    globals_: bool = True
    global_zero: bool = False
    p_share: int = 0              # percent chance to re-use an earlier item's link object
    p_dangling: int = 0           # percent of explicit relations that refer to an operation outside the circuit (ref -1)
    tags: List[str] = field(default_factory=lambda: ["", "a", "b"])
    max_reg_up: int = 0           # measurements may use the registry of an ancestor this many levels up
    durations: List[float] = field(default_factory=lambda: list(DYADIC))
    annot_fields: bool = True     # random integer fields on detectors/observables
    entry_points: bool = False    # sub-circuits also nested through add(<composite>), add_sub_circuit, add_declarative_circuit; operations through add_operation
    empty_barrier: bool = False   # also Barrier / CoordinateShift over an empty qubit list (accepted by the library)
    max_total_leaves: int = 60    # bound on unrolled leaf count (keeps relation depth and cost bounded)
    min_sub_items: int = 0


def program_strategy(cfg: GenCfg):
    from hypothesis import strategies as st

    dur_value = st.sampled_from(cfg.durations)
    reg_keys = ["k0", "k1"]

    @st.composite
    def dur_spec(draw):
        m = draw(st.integers(0, 9))
        if m < 7:
            return ["fix", draw(dur_value)]
        return ["reg", draw(st.sampled_from(reg_keys))]

    @st.composite
    def op_item(draw, index: int, earlier: List[dict], depth: int):
        k = draw(st.sampled_from(cfg.kinds))
        it: Dict[str, Any] = {"k": k}
        nq = cfg.nq
        if k in TWO_Q or k in GENERIC_2Q:
            a = draw(st.integers(0, nq - 1))
            b = draw(st.integers(0, nq - 2))
            b = b if b < a else b + 1
            it["q"] = [a, b]
        elif k in ("Barrier", "CoordinateShiftOperation"):
            qs = draw(st.lists(st.integers(0, nq - 1), min_size=0 if cfg.empty_barrier else 1, max_size=nq, unique=True))
            it["q"] = qs
        else:
            it["q"] = [draw(st.integers(0, nq - 1))]
        if k in SELECT_1Q or k == "VirtualTwoQubitVacant":
            it["ch"] = draw(st.sampled_from(CHANNELS))
        if k in SELECT_1Q or k in GENERIC_1Q or k in GENERIC_2Q or k == "VirtualTwoQubitVacant":
            it["d"] = draw(dur_spec())
        if k == "DispersiveMeasure":
            it["tag"] = draw(st.sampled_from(cfg.tags))
            it["reg"] = draw(st.integers(0, min(depth, cfg.max_reg_up)))
        if k == "DetectorOperation":
            if cfg.annot_fields:
                opt = lambda lo, hi: st.none() | st.integers(lo, hi)
                it["f"] = [draw(st.integers(0, 6)), draw(opt(0, 6)), draw(opt(0, 6)), draw(opt(0, 4)), draw(opt(0, 4))]
            else:
                it["f"] = [None, None, None, None, None]
        if k == "LogicalObservableOperation":
            it["f"] = [draw(st.none() | st.integers(0, 6)), draw(st.none() | st.integers(0, 6))] if cfg.annot_fields else [None, None]
        if k == "CoordinateShiftOperation":
            it["f"] = [draw(st.integers(-2, 3)), draw(st.integers(-2, 3))]
        # relation
        if index > 0 and k not in NO_CTOR_RELATION and draw(st.integers(0, 99)) < cfg.p_rel:
            candidates = [j for j in range(index) if cfg.rel_to_sub or not is_sub(earlier[j])]
            if candidates:
                # share a link object with an earlier explicit item of the same circuit
                sharable = [j for j in range(index) if not is_sub(earlier[j]) and earlier[j].get("rel") and "share" not in earlier[j]
                            and earlier[j]["rel"][1] >= 0]
                if cfg.p_share and sharable and draw(st.integers(0, 99)) < cfg.p_share:
                    j = draw(st.sampled_from(sharable))
                    it["rel"] = list(earlier[j]["rel"])
                    it["share"] = j
                elif cfg.p_dangling and draw(st.integers(0, 99)) < cfg.p_dangling:
                    it["rel"] = [draw(st.sampled_from(list(cfg.rel_types))), -1]
                else:
                    it["rel"] = [draw(st.sampled_from(list(cfg.rel_types))), draw(st.sampled_from(candidates))]
        return it

    @st.composite
    def circuit(draw, depth: int, allowance: int):
        """A circuit whose unrolled leaf count stays <= allowance."""
        reps = 1
        if cfg.max_reps > 1 and (depth > 0 or cfg.top_reps):
            reps = draw(st.sampled_from([1, 1] + list(range(2, cfg.max_reps + 1))))
            if allowance // reps < 1:
                reps = 1
        remaining = allowance // reps
        lo = cfg.min_items if depth == 0 else cfg.min_sub_items
        n = draw(st.integers(lo, cfg.max_items))
        items: List[dict] = []
        for i in range(n):
            if remaining <= 0:
                break
            earlier_subs = [j for j, x in enumerate(items) if is_sub(x)]
            if cfg.entry_points and earlier_subs and remaining > 0 and draw(st.integers(0, 7)) == 0:
                # the very same sub-circuit object is added once more (every add nests its own copy)
                j = draw(st.sampled_from(earlier_subs))
                if unrolled_leaf_count(items[j]["sub"]) <= remaining:
                    import copy as _copy
                    remaining -= unrolled_leaf_count(items[j]["sub"])
                    items.append({"sub": _copy.deepcopy(items[j]["sub"]), "reuse": j,
                                  "via": draw(st.sampled_from(["add", "add_composite", "add_sub_circuit"]))})
                    continue
            if depth < cfg.max_depth and draw(st.integers(0, 99)) < cfg.p_sub:
                sub = draw(circuit(depth + 1, remaining))
                remaining -= unrolled_leaf_count(sub)
                items.append({"sub": sub})
                if cfg.entry_points:
                    items[-1]["via"] = draw(st.sampled_from(["add", "add", "add_composite", "add_sub_circuit", "add_declarative_circuit"]))
            else:
                items.append(draw(op_item(i, items, depth)))
                if cfg.entry_points and draw(st.integers(0, 3)) == 0:
                    items[-1]["via"] = "add_operation"
                remaining -= 1
        c: Dict[str, Any] = {"reps": reps, "items": items}
        if cfg.reg_reps and (depth > 0 or cfg.top_reps) and (draw(st.booleans()) if reps > 1 else draw(st.integers(0, 3)) == 0):
            c["rmode"] = "reg"          # (also a registry-provided count of exactly 1)
        return c

    @st.composite
    def program(draw):
        g = None
        if cfg.globals_ and draw(st.integers(0, 2)) == 0:
            pos = [d for d in cfg.durations if d > 0 or cfg.global_zero]
            g = [draw(st.sampled_from(pos)) for _ in range(4)]
        top = draw(circuit(0, cfg.max_total_leaves))
        dreg = {}
        for _, it in iter_items(top):
            if not is_sub(it) and it.get("d", [None])[0] == "reg" and it["d"][1] not in dreg:
                dreg[it["d"][1]] = draw(dur_value)
        return {"g": g, "dreg": dreg, "top": top}

    return program()


# ------------------------------------------------------------------------------------------------------------------
# interpreter
# ------------------------------------------------------------------------------------------------------------------
class Built:
    """Result of interpreting a program through the public API."""

    def __init__(self):
        self.circuit = None                 # top DeclarativeCircuit
        self.handles: Dict[Tuple[int, ...], Any] = {}     # path -> object returned by add()
        self.decl: Dict[Tuple[int, ...], Any] = {}        # path of a sub item (or ()) -> DeclarativeCircuit used to build it
        self.duration_registry = None
        self.repetition_registry = None
        self.links: Dict[Tuple[int, ...], Any] = {}       # path -> RelationLink object given to the constructor
        self.passed: Dict[Tuple[int, ...], Any] = {}      # path -> object handed to add()
        self.rep_key: Optional[str] = None                # when set: every registry-provided count uses this one key
        self.rep_values: Dict[str, int] = {}              # registry key -> count the program asks for


def _classes():
    from qce_circuit.structure import circuit_operations as co
    from qce_circuit.addon_stim import circuit_operations as so
    table = {name: getattr(co, name) for name in MW_KINDS + SELECT_1Q + GENERIC_1Q + GENERIC_2Q + TWO_Q
             + ["Reset", "VirtualPark", "DispersiveMeasure", "Barrier"]}
    table.update({name: getattr(so, name) for name in ANNOT})
    return table


def global_override(g):
    """Context manager applying the program's global duration setting (no-op for None)."""
    import contextlib
    if g is None:
        return contextlib.nullcontext()
    from qce_circuit.structure.registry_duration import temporary_override_get_registry_at, GlobalRegistryKey
    return temporary_override_get_registry_at({
        GlobalRegistryKey.READOUT: g[0], GlobalRegistryKey.MICROWAVE: g[1],
        GlobalRegistryKey.FLUX: g[2], GlobalRegistryKey.RESET: g[3],
    })


def build(program, built: Optional[Built] = None, peek=None) -> Built:
    """Interpret the whole program. Call inside `global_override(program['g'])`.
    `peek(decl, path_of_next_item, item)` is called before every add (a user looking at the circuit while building it)."""
    from qce_circuit.language.declarative_circuit import DeclarativeCircuit
    from qce_circuit.structure.registry_duration import DurationRegistry
    from qce_circuit.structure.registry_repetition import (
        RepetitionRegistry, FixedRepetitionStrategy, RegistryRepetitionStrategy)
    b = built or Built()
    if b.duration_registry is None:
        b.duration_registry = DurationRegistry()
    for k, v in sorted(program.get("dreg", {}).items()):
        b.duration_registry.set_registry_at(k, v)
    if b.repetition_registry is None:
        b.repetition_registry = RepetitionRegistry()

    def make_decl(circ, path):
        reps = circ.get("reps", 1)
        if circ.get("rmode") == "reg":
            if b.rep_key is not None:
                key = b.rep_key            # count governed by the caller's registry entry
            else:
                key = "r" + "_".join(map(str, path))
                b.repetition_registry.set_registry_at(key, reps)
                b.rep_values[key] = reps
            return DeclarativeCircuit(repetition_strategy=RegistryRepetitionStrategy(b.repetition_registry, key))
        if reps != 1:
            return DeclarativeCircuit(repetition_strategy=FixedRepetitionStrategy(repetitions=reps))
        return DeclarativeCircuit()

    def fill(decl, circ, path, ancestors):
        b.decl[path] = decl
        for i, it in enumerate(circ["items"]):
            p = path + (i,)
            if is_sub(it):
                if "reuse" in it:
                    child = b.passed[path + (it["reuse"],)]
                    src = path + (it["reuse"],)                   # the re-used content, also reachable under the new path
                    for table in (b.decl, b.handles, b.passed, b.links):
                        for q_, c_ in list(table.items()):
                            if len(q_) > len(src) and q_[:len(src)] == src:
                                table[p + q_[len(src):]] = c_
                    b.decl[p] = child
                else:
                    child = make_decl(it["sub"], p)
                    fill(child, it["sub"], p, ancestors + [decl])
                if peek is not None:
                    peek(decl, p, it)
                b.passed[p] = child
                via = it.get("via", "add")
                if via == "add_composite":                     # generic entry point given the bare composite
                    b.handles[p] = decl.add(child.circuit_structure)
                elif via == "add_sub_circuit":
                    b.handles[p] = decl.add_sub_circuit(child.circuit_structure)
                elif via == "add_declarative_circuit":
                    b.handles[p] = decl.add_declarative_circuit(child)
                else:
                    b.handles[p] = decl.add(child)
                if it.get("srel"):
                    # the nested block is re-scheduled relative to an earlier item of the same circuit (add() itself only
                    # sequences a sub-circuit implicitly; the relation of the returned block is assignable)
                    from qce_circuit.structure.intrf_circuit_operation import RelationLink, RelationType
                    b.handles[p].relation_link = RelationLink(b.handles[path + (it["srel"][1],)], RelationType[REL[it["srel"][0]]])
            else:
                if peek is not None:
                    peek(decl, p, it)
                op = make_operation(it, p, path, decl, ancestors, b)
                b.passed[p] = op
                b.handles[p] = decl.add_operation(op) if it.get("via") == "add_operation" else decl.add(op)

    top = make_decl(program["top"], ())
    b.circuit = top
    fill(top, program["top"], (), [])
    return b


def make_operation(it, p, circ_path, decl, ancestors, b: Built):
    """Construct one operation object from its item (relation references resolved through b.handles)."""
    from qce_circuit.structure.intrf_circuit_operation import RelationLink, RelationType, QubitChannel
    from qce_circuit.structure.registry_duration import FixedDurationStrategy, RegistryDurationStrategy
    from qce_circuit.structure.registry_acquisition import RegistryAcquisitionStrategy
    cls = _classes()[it["k"]]
    k = it["k"]
    kw: Dict[str, Any] = {}
    if it.get("rel"):
        if "share" in it:
            link = b.links[circ_path + (it["share"],)]
        elif it["rel"][1] < 0:
            # relation to an operation that is not part of the circuit: the library warns and places the item implicitly
            link = RelationLink(_classes()["Identity"](qubit_index=97), RelationType[REL[it["rel"][0]]])
        else:
            link = RelationLink(b.handles[circ_path + (it["rel"][1],)], RelationType[REL[it["rel"][0]]])
        b.links[p] = link
        kw["relation"] = link
    if "d" in it:
        kw["duration_strategy"] = (FixedDurationStrategy(duration=it["d"][1]) if it["d"][0] == "fix"
                                   else RegistryDurationStrategy(b.duration_registry, it["d"][1]))
    if "ch" in it:
        kw["qubit_channel"] = QubitChannel[it["ch"]]
    q = it["q"]
    if k == "DispersiveMeasure":
        chain = [decl] + list(reversed(ancestors))
        owner = chain[min(it.get("reg", 0), len(chain) - 1)]
        return cls(qubit_index=q[0], acquisition_strategy=owner.get_acquisition_strategy(),
                   acquisition_tag=it.get("tag", ""), **kw)
    if k == "Barrier":
        return cls(qubit_indices=list(q))
    if k == "CoordinateShiftOperation":
        return cls(qubit_indices=list(q), time_shift=it["f"][0], space_shift=it["f"][1])
    if k == "DetectorOperation":
        f = it["f"]
        return cls(qubit_index=q[0], last_acquisition_index=f[0], main_target=f[1], secondary_target=f[2],
                   reference_offset=f[3], secondary_offset=f[4], **kw)
    if k == "LogicalObservableOperation":
        f = it["f"]
        return cls(qubit_index=q[0], last_acquisition_index=f[0], main_target=f[1], **kw)
    if len(q) == 2:
        return cls(control_qubit_index=q[0], target_qubit_index=q[1], **kw)
    return cls(qubit_index=q[0], **kw)
