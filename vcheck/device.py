"""Independent description of the Surface-17 device and the frequency-collision rules (oracle for C16 / C17).

Nothing in this module imports `qce_circuit` except `validate_against_library`, which only *compares* this
table with the library's public listing (qubit names, edge list) and raises RuntimeError (a harness error,
never a violation) when the table itself is wrong.

Device description (transcribed from the Surface-17 layout of the DiCarlo-lab devices, Versluis et al.,
PR Applied 8, 034021): nine data qubits on a 3 x 3 grid

        D1 D2 D3
        D4 D5 D6
        D7 D8 D9

four weight-4 plaquettes in the bulk (Z1 upper-left, X2 upper-right, X3 lower-left, Z4 lower-right) and four
weight-2 plaquettes on the boundary (X1 top, Z2 right, Z3 left, X4 bottom).  Every ancilla couples to the data
qubits on the corners of its plaquette; there are no data-data and no ancilla-ancilla couplings.  Three idle
frequency groups: the middle row of data qubits D4 D5 D6 is HIGH, the other data qubits are LOW, all
ancillas are MID.
"""
from __future__ import annotations

import itertools
from typing import Dict, FrozenSet, Iterable, List, Sequence, Set, Tuple

LOW, MID, HIGH = 0, 1, 2

# ancilla -> data qubits on the corners of its plaquette
PLAQUETTES: Dict[str, Tuple[str, ...]] = {
    "X1": ("D1", "D2"),
    "X2": ("D2", "D3", "D5", "D6"),
    "X3": ("D4", "D5", "D7", "D8"),
    "X4": ("D8", "D9"),
    "Z1": ("D1", "D2", "D4", "D5"),
    "Z2": ("D3", "D6"),
    "Z3": ("D4", "D7"),
    "Z4": ("D5", "D6", "D8", "D9"),
}
# plaquette centres in (row, column) units of the data-qubit grid; data qubit D(3r+c+1) sits at (r, c)
_CENTRES = {"Z1": (0.5, 0.5), "X2": (0.5, 1.5), "X3": (1.5, 0.5), "Z4": (1.5, 1.5),
            "X1": (-0.5, 0.5), "Z2": (0.5, 2.5), "Z3": (1.5, -0.5), "X4": (2.5, 1.5)}

DATA: List[str] = [f"D{i}" for i in range(1, 10)]
ANCILLAS: List[str] = sorted(PLAQUETTES)
QUBITS: List[str] = DATA + ANCILLAS

LEVEL: Dict[str, int] = {q: MID for q in ANCILLAS}
LEVEL.update({q: LOW for q in ("D1", "D2", "D3", "D7", "D8", "D9")})
LEVEL.update({q: HIGH for q in ("D4", "D5", "D6")})


def edge(a: str, b: str) -> Tuple[str, str]:
    """Canonical (sorted) representation of an undirected edge."""
    return (a, b) if a <= b else (b, a)


EDGES: List[Tuple[str, str]] = sorted(edge(a, d) for a, ds in PLAQUETTES.items() for d in ds)
EDGE_SET: FrozenSet[Tuple[str, str]] = frozenset(EDGES)
NEIGHBOURS: Dict[str, FrozenSet[str]] = {
    q: frozenset(b if a == q else a for a, b in EDGES if q in (a, b)) for q in QUBITS
}


def _self_check():
    # the plaquette table must agree with the grid geometry it was read from
    for anc, (r, c) in _CENTRES.items():
        corners = []
        for dr, dc in itertools.product((-0.5, 0.5), repeat=2):
            rr, cc = r + dr, c + dc
            if 0 <= rr <= 2 and 0 <= cc <= 2:
                corners.append(f"D{int(3 * rr + cc + 1)}")
        assert sorted(corners) == sorted(PLAQUETTES[anc]), (anc, corners)
    assert len(QUBITS) == 17 and len(set(QUBITS)) == 17
    assert len(EDGES) == 24 and len(EDGE_SET) == 24
    assert all(LEVEL[a] != LEVEL[b] for a, b in EDGES)


_self_check()


# ---------------------------------------------------------------------------------------------------
# the rules (from the statement of C16)
# ---------------------------------------------------------------------------------------------------
def is_edge(a: str, b: str) -> bool:
    return edge(a, b) in EDGE_SET


def operating_level(gate: Sequence[str]) -> int:
    """Both qubits of a gate operate at the level of the lower-frequency member."""
    return min(LEVEL[gate[0]], LEVEL[gate[1]])


def moving_member(gate: Sequence[str]) -> str:
    """The higher-frequency member: the one that is moved (down) to the operating level."""
    a, b = gate
    return a if LEVEL[a] > LEVEL[b] else b


def qubit_disjoint(gates: Iterable[Sequence[str]]) -> bool:
    seen: Set[str] = set()
    for g in gates:
        for q in g:
            if q in seen:
                return False
            seen.add(q)
    return True


def collisions(gates: Sequence[Sequence[str]]) -> List[Tuple[str, str]]:
    """Neighbouring qubit pairs that belong to different gates and end up at the same operating level."""
    out = []
    for i, g in enumerate(gates):
        for h in gates[i + 1:]:
            if operating_level(g) != operating_level(h):
                continue
            for p in g:
                for q in h:
                    if p != q and q in NEIGHBOURS[p]:
                        out.append((p, q))
    return out


def accepted(gates: Sequence[Sequence[str]]) -> bool:
    """A set of gates may run simultaneously iff no qubit is used twice and nothing collides in frequency."""
    return qubit_disjoint(gates) and not collisions(gates)


def requires_parking(q: str, gates: Sequence[Sequence[str]]) -> bool:
    """Idle qubit q must be parked iff it neighbours the moving member of an active gate and idles at that
    gate's operating level.  Only meaningful for qubit-disjoint gate sets."""
    if any(q in g for g in gates):
        return False
    return any(moving_member(g) in NEIGHBOURS[q] and LEVEL[q] == operating_level(g) for g in gates)


def required_parking(gates: Sequence[Sequence[str]]) -> List[str]:
    return [q for q in QUBITS if requires_parking(q, gates)]


def valid_partitions(n: int, size: int, ok) -> int:
    """Number of partitions of range(n) into unordered blocks of `size` whose blocks all satisfy ok(block)."""
    if size <= 0 or n % size:
        return 0

    def rec(rest: Tuple[int, ...]) -> int:
        if not rest:
            return 1
        first, others = rest[0], rest[1:]
        total = 0
        for comb in itertools.combinations(others, size - 1):
            block = (first,) + comb
            if ok(block):
                total += rec(tuple(x for x in others if x not in comb))
        return total

    return rec(tuple(range(n)))


# ---------------------------------------------------------------------------------------------------
# validation of the *table* against the library's public listing (once per process)
# ---------------------------------------------------------------------------------------------------
_validated = False


_mismatch = None


def table_mismatch():
    """None when this table's qubit and edge sets equal Surface17Layer's public listing, else a description of the
    difference (computed once per process)."""
    global _validated, _mismatch
    if _validated:
        return _mismatch
    from qce_circuit.connectivity.connectivity_surface_code import Surface17Layer
    layer = Surface17Layer()
    lib_qubits = sorted(q.id for q in layer.qubit_ids)
    lib_edges = sorted(edge(e.qubit_ids[0].id, e.qubit_ids[1].id) for e in layer.edge_ids)
    if lib_qubits != sorted(QUBITS) or len(lib_qubits) != 17:
        _mismatch = f"the library's Surface-17 layer lists qubits {lib_qubits}, the device has {sorted(QUBITS)}"
    elif lib_edges != EDGES:
        _mismatch = (f"the library's Surface-17 layer lists other edges than the device (plaquette geometry): missing in the library "
                     f"{sorted(set(EDGES) - set(lib_edges))}, only in the library {sorted(set(lib_edges) - set(EDGES))}")
    _validated = True
    return _mismatch


def validate_against_library():
    """Raise RuntimeError when the table differs from the library's listing (for callers that cannot report a violation)."""
    msg = table_mismatch()
    if msg:
        raise RuntimeError(msg)
