#!/usr/bin/env python3
"""Print the prompt for a seeding sub-agent: tools/seed_prompt.py <PROPERTY_ID> <worktree> [variant hint]"""
import json, sys
pid, wt = sys.argv[1], sys.argv[2]
hint = sys.argv[3] if len(sys.argv) > 3 else ""
props = {json.loads(l)["id"]: json.loads(l) for l in open("/verif/properties.jsonl") if l.strip()}
p = props[pid]
print(f"""You are helping to evaluate a test suite. Work ONLY inside the git worktree `{wt}` (a checkout of the Python library MiniSean/QCoCircuits, package `qce_circuit` under `{wt}/src`). Do not read or write anything under /verif or /repo, and do not use git commands other than `git -C {wt} diff` / `git -C {wt} status` / `git -C {wt} apply` (never commit, never `git stash`: the stash is shared between sibling worktrees other people are using).

IMPORTANT environment trap: the interpreter /venv/bin/python has an editable install pointing at ANOTHER checkout, so you must always put this worktree first on the path:
  run the existing tests:  cd {wt} && PYTHONPATH={wt}/src /venv/bin/python -m pytest -q -p no:cacheprovider tests      (61 tests, ~7 s, must all pass)
  run your demonstration:  cd {wt} && PYTHONPATH={wt}/src /venv/bin/python demo_{pid}.py
Check with `python -c "import qce_circuit; print(qce_circuit.__file__)"` (same PYTHONPATH) that the worktree is what gets imported. Wrap long commands in `timeout`.

The library is meant to satisfy this semantic property:

  PROPERTY {pid}: {p['title']}
  Statement: {p['statement']}
  Quantified over: {p['quantifier']['text']}
  Code it is anchored in: {', '.join(p['anchors']['files'])}

Your task: make ONE realistic change to the library source (a plausible bug a developer could introduce: a wrong condition, an off-by-one, a forgotten field, a stale cache, a wrong tie-break, two sites that each look fine alone ...) such that
  (a) the package still imports and ALL 61 existing tests still pass (run them as shown above), and
  (b) the property above no longer holds, and
  (c) the breakage does NOT show up in ordinary simple use: it must need something specific to manifest - a particular multi-step sequence of calls, an unusual but legal input (a particular nesting / relation shape / repetition count / duration setting / qubit subset / rounds list ...), a particular order of operations, or two cooperating code sites. A change that breaks every circuit, or that the simplest example exposes, is not wanted. {hint}

Deliver, inside `{wt}`:
  1. the change itself, left as uncommitted modifications of the working tree, and `git -C {wt} diff > {wt}/seed_{pid}.patch`;
  2. `{wt}/demo_{pid}.py`: a small self-contained program using only the library's public API that exits 0 (prints PASS) on the ORIGINAL code and exits 1 (prints FAIL with an explanation) with your change applied - verify both by running it with and without the change (save `git -C {wt} diff -- src > /tmp/{pid}-seed.patch`, reverse it with `git -C {wt} apply -R /tmp/{pid}-seed.patch`, run, re-apply with `git -C {wt} apply /tmp/{pid}-seed.patch`), with the PYTHONPATH shown above;
  3. `{wt}/SEED_REPORT.md`: which file/lines you changed and why it is plausible, exactly what is needed for the breakage to manifest, the commands you ran and their outcomes (tests: 61 passed with the change; demo: PASS without, FAIL with).
Finish with a short summary of the same in your final message. Keep the change small (a few lines).""")
