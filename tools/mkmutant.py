#!/usr/bin/env python3
"""mkmutant.py <name> <repo-relative file> <<< JSON {"old": "...", "new": "..."}  -> /verif/mutants/<name>.diff
Builds a unified diff (-p1) by exact string replacement against the base tree ($VERIF_BASE or /repo)."""
import difflib, json, os, sys
name, rel = sys.argv[1], sys.argv[2]
spec = json.load(sys.stdin)
base = os.environ.get("VERIF_BASE", "/repo")
src = open(os.path.join(base, rel)).read()
assert src.count(spec["old"]) == 1, f"old text occurs {src.count(spec['old'])} times"
dst = src.replace(spec["old"], spec["new"])
diff = difflib.unified_diff(src.splitlines(True), dst.splitlines(True), "a/" + rel, "b/" + rel, n=3)
out = os.path.join(os.path.dirname(os.path.dirname(os.path.abspath(__file__))), "mutants", name + ".diff")
open(out, "w").write("".join(diff))
print(out)
