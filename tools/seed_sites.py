#!/usr/bin/env python3
"""Print, per property, the code sites (file :: enclosing def/class from the hunk headers) touched by the seeded changes so far."""
import glob, json, os, re, sys
sites = {}
for meta in sorted(glob.glob("/verif/seeded/*/meta.json")):
    m = json.load(open(meta))
    diff = open(os.path.join(os.path.dirname(meta), "patch.diff")).read()
    cur = None
    for line in diff.splitlines():
        if line.startswith("+++ b/"):
            cur = os.path.basename(line[6:])
        elif line.startswith("@@") and cur:
            ctx = line.split("@@")[-1].strip()
            name = re.sub(r"\(.*", "", ctx).replace("def ", "").replace("class ", "").strip() or "?"
            sites.setdefault(m["property"], []).append(f"{cur}::{name}")
prop = sys.argv[1] if len(sys.argv) > 1 else None
for p in sorted(sites):
    if prop and p != prop:
        continue
    uniq = list(dict.fromkeys(sites[p]))
    print(p, "; ".join(uniq))
