#!/usr/bin/env python3
"""Run every hand-written mutant against the check of the property it targets (scratch copies, never /repo).
Writes /verif/docs/mutant_matrix.json and prints a table. usage: tools/run_mutants.py [pattern] [-j N]"""
import glob, json, os, re, subprocess, sys, time
from concurrent.futures import ThreadPoolExecutor
VERIF = "/verif"
pat = sys.argv[1] if len(sys.argv) > 1 and not sys.argv[1].startswith("-") else ""
jobs = int(sys.argv[sys.argv.index("-j") + 1]) if "-j" in sys.argv else 8
muts = sorted(m for m in glob.glob(f"{VERIF}/mutants/*.diff") if pat in os.path.basename(m))


def run(m):
    name = os.path.basename(m)[:-5]
    prop = name.split("_")[0].upper()
    t0 = time.time()
    r = subprocess.run([f"{VERIF}/tools/with_patch.sh", m, prop, "quick"], capture_output=True, text=True)
    out = r.stdout
    kinds = sorted(set(re.findall(r"kind=(\S+)", out)))
    status = "killed" if "exit=1" in out else ("PATCH-FAILED" if "PATCH-FAILED" in out else ("survived" if "exit=0" in out else "error"))
    return name, {"property": prop, "status": status, "kinds": kinds, "wall_s": round(time.time() - t0, 1)}


res = {}
with ThreadPoolExecutor(max_workers=jobs) as ex:
    for name, v in ex.map(run, muts):
        res[name] = v
        print(f"{name:55s} {v['status']:12s} {','.join(v['kinds'])[:60]} {v['wall_s']}s", flush=True)
os.makedirs(f"{VERIF}/docs", exist_ok=True)
path = f"{VERIF}/docs/mutant_matrix.json"
old = json.load(open(path)) if os.path.exists(path) and pat else {}
old.update(res)
json.dump(old, open(path, "w"), indent=1, sort_keys=True)
print(f"{sum(v['status'] == 'killed' for v in res.values())}/{len(res)} killed")
