#!/usr/bin/env python3
"""Render known_findings.json as plain lines (known_findings.txt): one 'fixed: property=<id> <commit> <what failed>' line per
repaired finding and one 'open: property=<id> <id> <what fails>' line per recorded one."""
import json
k = json.load(open("/verif/known_findings.json"))
lines = []
for f in k["findings"]:
    if f["status"] == "fixed":
        lines.append(f["line"])
    else:
        lines.append(f"open: property={f['property']} {f['id']} {f['what']}")
open("/verif/known_findings.txt", "w").write("\n".join(lines) + "\n")
print(len(lines), "lines")
