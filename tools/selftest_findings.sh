#!/bin/bash
# Exercise the open-known-finding path on a scratch tree: revert the C10 repair in a copy of /repo, mark the
# entry open in a temporary findings file, and expect  KNOWN-FINDING + exit 0  (and exit 1 with an empty findings file).
set -u
scratch=$(mktemp -d /tmp/vfind-XXXXXX); trap 'rm -rf "$scratch"' EXIT
rsync -a --exclude .git --exclude temp --exclude __pycache__ /repo/ "$scratch/repo/"
python3 - "$scratch" <<'PY'
import json, sys
root = sys.argv[1]
p = f"{root}/repo/src/qce_circuit/library/repetition_code/circuit_constructors.py"
s = open(p).read()
old = "    result.add(cycle_circuit)\n    result.add(Barrier(description.qubit_indices))\n    result.add(get_circuit_final_measurement("
assert old in s
open(p, "w").write(s.replace(old, "    result.add(cycle_circuit)\n    result.add(get_circuit_final_measurement("))
k = {"findings": [{"id": "F-C10-simplified-no-refocusing-final-barrier", "property": "C10", "status": "open",
     "what": "simplified constructor without refocusing: closing barrier overlaps the QEC block",
     "repro": "known_findings/C10-simplified-no-refocusing-final-barrier.json",
     "signature": {"part": ["repcode_simplified", "cycle_sweep"], "kind": ["overlap-channel", "overlap-barrier"],
                   "predicate": "c10_simplified_no_refocusing_final_barrier"}}]}
json.dump(k, open(f"{root}/open.json", "w"))
json.dump({"findings": []}, open(f"{root}/none.json", "w"))
PY
cd /verif
out=$(VERIF_REPO="$scratch/repo" VCHECK_FINDINGS_FILE="$scratch/open.json" /venv/bin/python -m vcheck.run C10 --tier quick --part repcode_simplified,cycle_sweep 2>&1); rc1=$?
echo "$out" | grep -E "KNOWN-FINDING|seed=|NOTE" | cut -c1-200
VERIF_REPO="$scratch/repo" VCHECK_FINDINGS_FILE="$scratch/none.json" /venv/bin/python -m vcheck.run C10 --tier quick --part repcode_simplified,cycle_sweep | grep -E "^VIOLATION|seed=" | cut -c1-160; rc2=${PIPESTATUS[0]}
echo "with open entry: exit=$rc1 (want 0)   without: exit=$rc2 (want 1)"
[ "$rc1" = 0 ] && [ "$rc2" = 1 ] && echo SELFTEST-OK
