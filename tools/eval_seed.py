#!/usr/bin/env python3
"""Evaluate a seeded change produced by an independent sub-agent.

usage: tools/eval_seed.py <worktree> <PROPERTY_ID> <seed-id> [--checks C01,C06,...]

1. confirms the 61 repository tests pass with the change (imported from the worktree),
2. confirms the demonstration passes on the original code and fails with the change,
3. runs the registered quick checks against the worktree and records which of them report a VIOLATION,
4. stores patch.diff, the demonstration and meta.json under /verif/seeded/<seed-id>/.
Nothing is written to /repo.
"""
import json, os, shutil, subprocess, sys, time
from concurrent.futures import ThreadPoolExecutor

wt, pid, sid = sys.argv[1], sys.argv[2], sys.argv[3]
needs = sys.argv[sys.argv.index("--needs") + 1] if "--needs" in sys.argv else ""
checks = None
if "--checks" in sys.argv:
    checks = sys.argv[sys.argv.index("--checks") + 1].split(",")
VERIF = "/verif"
PY = "/venv/bin/python"
env = dict(os.environ, PYTHONPATH=f"{wt}/src", MPLBACKEND="Agg", TQDM_DISABLE="1")


def sh(cmd, **kw):
    return subprocess.run(cmd, shell=True, capture_output=True, text=True, **kw)


demo = f"demo_{pid}.py"
assert os.path.exists(os.path.join(wt, demo)), "no demo"
patch = sh(f"git -C {wt} diff -- src").stdout
assert patch.strip(), "no source change in worktree"
r = sh(f"cd {wt} && timeout 600 {PY} -m pytest -q -p no:cacheprovider tests 2>&1 | tail -1", env=env)
tests_line = r.stdout.strip()
d_with = sh(f"cd {wt} && timeout 300 {PY} {demo}", env=env)
# (git stash is shared between worktrees of one repository - never use it here; reverse-apply the patch instead)
pfile = os.path.join(wt, ".eval_seed.patch")
open(pfile, "w").write(patch)
assert sh(f"git -C {wt} apply -R {pfile}").returncode == 0, "cannot reverse the change"
try:
    d_without = sh(f"cd {wt} && timeout 300 {PY} {demo}", env=env)
finally:
    assert sh(f"git -C {wt} apply {pfile}").returncode == 0, "cannot re-apply the change"
    os.remove(pfile)
assert sh(f"git -C {wt} diff -- src").stdout == patch, "the change was not restored"
print("tests with change:", tests_line)
print("demo with change   rc=", d_with.returncode, (d_with.stdout + d_with.stderr).strip().splitlines()[-1:] )
print("demo without change rc=", d_without.returncode, (d_without.stdout + d_without.stderr).strip().splitlines()[-1:])

manifest = json.load(open(f"{VERIF}/MANIFEST.json"))
all_checks = [c["property_id"] for c in manifest["checks"]]
run = checks or all_checks


def run_check(c):
    t0 = time.time()
    e = dict(os.environ, VERIF_REPO=wt)
    e.pop("PYTHONPATH", None)
    r = subprocess.run(f"cd {VERIF} && timeout 1500 {PY} -m vcheck.run {c} --tier quick", shell=True, capture_output=True, text=True, env=e)
    viol = [l for l in r.stdout.splitlines() if l.startswith("VIOLATION")]
    kinds = [l.strip() for l in r.stdout.splitlines() if l.strip().startswith("part=")]
    return c, r.returncode, viol, kinds, round(time.time() - t0, 1)


results = {}
with ThreadPoolExecutor(max_workers=14) as ex:
    for c, rc, viol, kinds, dt in ex.map(run_check, run):
        results[c] = {"exit": rc, "violations": len(viol), "kinds": kinds[:4], "wall_s": dt}
        print(f"  {c}: exit={rc} {kinds[:2]} ({dt}s)")

out = f"{VERIF}/seeded/{sid}"
os.makedirs(out, exist_ok=True)
open(f"{out}/patch.diff", "w").write(patch)
shutil.copy(os.path.join(wt, demo), f"{out}/{demo}")
if os.path.exists(os.path.join(wt, "SEED_REPORT.md")):
    shutil.copy(os.path.join(wt, "SEED_REPORT.md"), f"{out}/SEED_REPORT.md")
meta = {
    "seed_id": sid, "property": pid, "needs_to_manifest": needs,
    "origin": "written by a fresh sub-agent that saw only the property text and its own scratch worktree (nothing from /verif)",
    "tests_with_change": tests_line,
    "demo_with_change_exit": d_with.returncode, "demo_without_change_exit": d_without.returncode,
    "confirmed": ("61 passed" in tests_line) and d_with.returncode != 0 and d_without.returncode == 0,
    "checks_run": "quick tier, VERIF_REPO=<scratch worktree with the change>, seed 1",
    "results": results,
    "caught_by": sorted(c for c, v in results.items() if v["exit"] == 1),
    "caught_by_target_check": results.get(pid, {}).get("exit") == 1,
    "base_commit": sh(f"git -C {wt} rev-parse --short HEAD").stdout.strip(),
}
json.dump(meta, open(f"{out}/meta.json", "w"), indent=1)
print("confirmed:", meta["confirmed"], "caught_by:", meta["caught_by"])
