#!/bin/bash
# usage: tools/with_patch.sh <patch.diff> <PROP> [quick|thorough] [extra args]
# Runs a check against a scratch copy of /repo with the patch applied (never touches /repo).
set -u
patch_file=$(readlink -f "$1"); prop=$2; tier=${3:-quick}; shift 3 2>/dev/null || shift 2
scratch=$(mktemp -d /tmp/vmut-XXXXXX)
trap 'rm -rf "$scratch"' EXIT
rsync -a --exclude .git --exclude temp --exclude "__pycache__" "${VERIF_BASE:-/repo}/" "$scratch/"
( cd "$scratch" && patch -p1 -s < "$patch_file" ) || { echo "PATCH-FAILED"; exit 3; }
cd /verif
VERIF_REPO="$scratch" /venv/bin/python -m vcheck.run "$prop" --tier "$tier" "$@"
rc=$?
echo "exit=$rc"
exit $rc
