#!/usr/bin/env python3
"""Print the prompt for a defect-hunting sub-agent: tools/hunt_prompt.py <PROPERTY_ID> <worktree>
The agent sees only the property text and a scratch worktree of the unchanged library; it looks for legal inputs / call
sequences on which the UNCHANGED code violates the property and delivers a minimal demonstration for each."""
import json, sys
pid, wt = sys.argv[1], sys.argv[2]
props = {json.loads(l)["id"]: json.loads(l) for l in open("/verif/properties.jsonl") if l.strip()}
p = props[pid]
print(f"""You are helping to evaluate a Python library. Work ONLY inside the git worktree `{wt}` (a checkout of MiniSean/QCoCircuits, package `qce_circuit` under `{wt}/src`). Do not read or write anything under /verif or /repo, do not modify the library source, and do not use git commands other than `git -C {wt} status`.

IMPORTANT environment trap: the interpreter /venv/bin/python has an editable install pointing at ANOTHER checkout, so always put this worktree first on the path:  cd {wt} && PYTHONPATH={wt}/src /venv/bin/python your_script.py   (check once with `python -c "import qce_circuit; print(qce_circuit.__file__)"`, same PYTHONPATH). Wrap long commands in `timeout`.

The library is meant to satisfy this semantic property:

  PROPERTY {pid}: {p['title']}
  Statement: {p['statement']}
  Quantified over: {p['quantifier']['text']}
  Code it is anchored in: {', '.join(p['anchors']['files'])}

Your task: find inputs or call sequences, legal according to the public API and inside the quantifier above, on which the UNCHANGED library violates the property. Read the anchored code and what it calls, look for assumptions that hold for the library's own tests and examples but not for every legal input (unusual but legal option values and combinations, alternative constructors / entry points, boundary sizes, orders of calls, identifier orders, duration settings that are not round numbers, observing between mutations, re-using objects), and TEST your suspicions by running small scripts. Spend your effort on breadth: try many different regimes rather than polishing one.

Rules of evidence: a finding counts only if you have a short self-contained script (public API only) that shows the violation on the unchanged code, and you can say which clause of the statement is violated and why the input is legal (point at the signature, docstring, an existing test or a library call site that uses the same feature). Do not report: crashes on inputs the code documents as unsupported, behaviour of private methods, or things that merely look odd but are not covered by the statement.

Deliver inside `{wt}`: one script per finding `hunt_{pid}_<n>.py` (prints what it observed and what the property requires; exit 1 when the violation shows), and `HUNT_REPORT.md` listing for each finding: the clause violated, the input / sequence, the observed and the required behaviour, your judgement of the root cause (file / function), and why the input is legal; plus a list of the regimes you tried that held. If you find nothing after a thorough search, say so and list what you tried. Finish with a short summary of the same in your final message.""")
