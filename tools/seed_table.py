#!/usr/bin/env python3
"""Rewrite the seeded-changes table in DESIGN.md (between the SEED-TABLE markers) from seeded/*/meta.json."""
import glob, json, os, re
rows = []
for p in sorted(glob.glob("/verif/seeded/*/meta.json")):
    m = json.load(open(p))
    diff = open(os.path.join(os.path.dirname(p), "patch.diff")).read()
    files = sorted(set(re.findall(r"^\+\+\+ b/src/qce_circuit/(\S+)", diff, re.M)))
    note = m.get("note", "")
    if m.get("status_on_head"):
        note = (note + " " if note else "") + f"**On today's HEAD: {m['status_on_head']}** - {m['status_on_head_note']}"
    if os.path.exists(os.path.join(os.path.dirname(p), "patch_head.diff")):
        note = (note + " " if note else "") + "(patch_head.diff: the same change re-applied by hand on today's code; tests pass and the author's demonstration still fails with it)"
    rows.append(f"| {m['seed_id']} | {', '.join(os.path.basename(f) for f in files)} | {m.get('needs_to_manifest','')} | "
                f"{', '.join(m['caught_by'])}{' (target check: yes)' if m['caught_by_target_check'] else ' (**target check: no**)'} | {note} |")
table = ("| seed | file changed | what it needs to manifest | checks that report it (quick tier, seed 1) | history |\n|---|---|---|---|---|\n" + "\n".join(rows))
s = open("/verif/DESIGN.md").read()
a, b = s.index("<!-- SEED-TABLE-BEGIN -->"), s.index("<!-- SEED-TABLE-END -->")
s = s[:a] + "<!-- SEED-TABLE-BEGIN -->\n" + table + "\n" + s[b:]
open("/verif/DESIGN.md", "w").write(s)
print(len(rows), "rows")
