#!/usr/bin/env python3
"""Greedy structural minimiser for a program-based replay file: tools/ddmin_case.py <PROP> <replay.json> -> prints reduced case.
Removes items (fixing up relation indices) while the check still reports the same violation kind."""
import copy, json, subprocess, sys, os, tempfile
prop, path = sys.argv[1], sys.argv[2]
rep = json.load(open(path))
kind = rep["kind"]


def fails(case):
    with tempfile.NamedTemporaryFile("w", suffix=".json", delete=False) as f:
        json.dump({"part": rep["part"], "case": case}, f)
    r = subprocess.run(["/venv/bin/python", "-m", "vcheck.run", prop, "--replay", f.name], capture_output=True, text=True, cwd="/verif", env=dict(os.environ))
    os.remove(f.name)
    return f"kind={kind}" in r.stdout


def circuits(c, acc):
    acc.append(c)
    for it in c["items"]:
        if "sub" in it:
            circuits(it["sub"], acc)
    return acc


def remove(c, i):
    items = c["items"]
    del items[i]
    for it in items:
        if "sub" in it:
            continue
        if it.get("rel") and it["rel"][1] >= 0:
            if it["rel"][1] == i:
                it.pop("rel"); it.pop("share", None)
            elif it["rel"][1] > i:
                it["rel"][1] -= 1
        if "share" in it:
            if it["share"] == i:
                it.pop("share")
            elif it["share"] > i:
                it["share"] -= 1


case = rep["case"]
prog_holder = case if "top" in case else case["program"]
changed = True
while changed:
    changed = False
    for ci in range(len(circuits(prog_holder["top"], []))):
        n = len(circuits(prog_holder["top"], [])[ci]["items"])
        for i in reversed(range(n)):
            trial = copy.deepcopy(case)
            holder = trial if "top" in trial else trial["program"]
            remove(circuits(holder["top"], [])[ci], i)
            if fails(trial):
                case = trial
                prog_holder = case if "top" in case else case["program"]
                changed = True
                break
        if changed:
            break
print(json.dumps(case))
