#!/usr/bin/env python3
"""Detection robustness: run each seeded change's target check at several VERIF_SEED values against a scratch copy of /repo
with the seeded patch applied.  Writes docs/seed_matrix.json.  usage: tools/seed_matrix.py [-j N] [--seeds 1,2,3]"""
import glob, json, os, re, subprocess, sys
from concurrent.futures import ThreadPoolExecutor
jobs = int(sys.argv[sys.argv.index("-j") + 1]) if "-j" in sys.argv else 6
seeds = [int(x) for x in (sys.argv[sys.argv.index("--seeds") + 1].split(",") if "--seeds" in sys.argv else ["1", "2", "3"])]
items = []
for meta in sorted(glob.glob("/verif/seeded/*/meta.json")):
    m = json.load(open(meta))
    d = os.path.dirname(meta)
    if m.get("status_on_head"):
        print(m["seed_id"], "-", m["status_on_head"], "on HEAD:", m["status_on_head_note"][:120], flush=True)
        continue
    for s in seeds:
        # patch_head.diff = the same change re-applied by hand on today's code, for patches that collide with a later fix
        ported = os.path.join(d, "patch_head.diff")
        items.append((m["seed_id"], m["property"], ported if os.path.exists(ported) else os.path.join(d, "patch.diff"), s, m.get("base_commit")))


_bases = {}
_control = {}


def base_tree(commit):
    """Export of the commit a seeded change was written against (for patches that collide with a later fix)."""
    if commit not in _bases:
        d = f"/tmp/vbase-{commit}"
        if not os.path.isdir(d):
            os.makedirs(d)
            subprocess.run(f"git -C /repo archive {commit} | tar -x -C {d}", shell=True, check=True)
        _bases[commit] = d
    return _bases[commit]


def run(it):
    sid, prop, patch, seed, base = it
    r = subprocess.run(["/verif/tools/with_patch.sh", patch, prop, "quick", "--seed", str(seed)], capture_output=True, text=True)
    out = r.stdout
    if "PATCH-FAILED" in out and base:
        r = subprocess.run(["/verif/tools/with_patch.sh", patch, prop, "quick", "--seed", str(seed)], capture_output=True, text=True,
                           env=dict(os.environ, VERIF_BASE=base_tree(base)))
        out = r.stdout
        if "exit=1" in out:
            # control: the base commit itself (which lacks later fixes) must be quiet for this check and seed
            key = (base, prop, seed)
            if key not in _control:
                empty = "/tmp/vbase-empty.diff"
                open(empty, "w").close()
                c = subprocess.run(f"cd /verif && VERIF_REPO={base_tree(base)} /venv/bin/python -m vcheck.run {prop} --tier quick --seed {seed}",
                                   shell=True, capture_output=True, text=True)
                _control[key] = c.returncode
            if _control[key] == 0:
                return sid, seed, "caught (on its base commit %s)" % base
            return sid, seed, "confounded (base commit %s itself is reported by today's check)" % base
    status = "caught" if "exit=1" in out else ("PATCH-FAILED" if "PATCH-FAILED" in out else ("missed" if "exit=0" in out else "error"))
    return sid, seed, status


res = {}
with ThreadPoolExecutor(max_workers=jobs) as ex:
    for sid, seed, status in ex.map(run, items):
        res.setdefault(sid, {})[str(seed)] = status
        print(sid, seed, status, flush=True)
json.dump(res, open("/verif/docs/seed_matrix.json", "w"), indent=1, sort_keys=True)
tot = sum(len(v) for v in res.values())
print(sum(1 for v in res.values() for s in v.values() if s.startswith("caught")), "/", tot, "caught")
import shutil
for d in _bases.values():
    shutil.rmtree(d, ignore_errors=True)
