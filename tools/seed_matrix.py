#!/usr/bin/env python3
"""Detection robustness: run each seeded change's target check at several VERIF_SEED values against a scratch copy of /repo
with the seeded patch applied.  Writes docs/seed_matrix.json.  usage: tools/seed_matrix.py [-j N] [--seeds 1,2,3]"""
import glob, json, os, re, subprocess, sys
from concurrent.futures import ThreadPoolExecutor
jobs = int(sys.argv[sys.argv.index("-j") + 1]) if "-j" in sys.argv else 6
seeds = [int(x) for x in (sys.argv[sys.argv.index("--seeds") + 1].split(",") if "--seeds" in sys.argv else ["1", "2", "3"])]
items = []
for meta in sorted(glob.glob("/verif/seeded/*/meta.json")):
    m = json.load(open(meta))
    d = os.path.dirname(meta)
    for s in seeds:
        items.append((m["seed_id"], m["property"], os.path.join(d, "patch.diff"), s))


def run(it):
    sid, prop, patch, seed = it
    r = subprocess.run(["/verif/tools/with_patch.sh", patch, prop, "quick", "--seed", str(seed)], capture_output=True, text=True)
    out = r.stdout
    status = "caught" if "exit=1" in out else ("PATCH-FAILED" if "PATCH-FAILED" in out else ("missed" if "exit=0" in out else "error"))
    return sid, seed, status


res = {}
with ThreadPoolExecutor(max_workers=jobs) as ex:
    for sid, seed, status in ex.map(run, items):
        res.setdefault(sid, {})[str(seed)] = status
        print(sid, seed, status, flush=True)
json.dump(res, open("/verif/docs/seed_matrix.json", "w"), indent=1, sort_keys=True)
tot = sum(len(v) for v in res.values())
print(sum(1 for v in res.values() for s in v.values() if s == "caught"), "/", tot, "caught")
