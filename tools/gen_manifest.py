#!/usr/bin/env python3
"""Regenerate /verif/MANIFEST.json from the table below (keeps it schema-valid at all times)."""
import json
import os

HERE = os.path.dirname(os.path.dirname(os.path.abspath(__file__)))
PY = "/venv/bin/python"

# id -> (technique, level text, level note, design ref)
def _c(tech, text, note, ref):
    return (tech, text, note, ref)


PROGRAMS = ("Hypothesis-generated build programs (plain-data AST over all 26 operation kinds, three relation types, nesting, "
            "repetition counts, fixed / registry / global durations incl. zero) interpreted through the public API")

CLAIMED = {
    "C01": _c("generated build programs vs independent reference scheduler (model-based differential), order-independent structural matching",
              "Exploration: " + PROGRAMS + "; every reported start/end/duration is compared with a reference model that is plain recursion over the "
              "program data (no caches, no traversal order), after an order-independent correspondence between added items and present operations has "
              "validated every explicit and implicit relation; repeated on apply_modifiers() against an unrolled model, with and without a prior listing.",
              "Trusts the reference model (vcheck/model.py, ~250 lines, transcribed from the property statements) and Hypothesis' generator coverage as reported in the class histogram; ties between equally deep implicit predecessors are accepted in either direction.",
              "DESIGN.md section 4 / C01"),
    "C02": _c("generated build programs; identity / multiset / contiguity / causality / stability invariants over the listing",
              "Exploration: " + PROGRAMS + " incl. shared link objects (equal-valued operations), branching graphs and empty sub-circuits; the listing is checked "
              "for completeness (signature multiset = program leaves, top-level object identity), no duplicates, contiguity of each sub-circuit, causality "
              "w.r.t. the reported relation, stability of two consecutive listings and get_last_entry().",
              "Causality is judged from relation_link as reported by the listed operations; depth stays far below the graph depth limit.",
              "DESIGN.md section 4 / C02"),
    "C03": _c("Hypothesis RuleBasedStateMachine over mutation / observation histories; differential against twins replayed from the mutation log",
              "Exploration of call histories: rules add operations and prepared sub-circuits, unroll, flatten, change registry durations and counts, enter / leave "
              "global-duration overrides, and interleave nine kinds of observation (listing, duration, times, acquisition indices, Stim export, compact / full "
              "plot, copy, unrolled copy). Whenever a mutation follows an observation, and at the end, the live circuit is compared with two twins rebuilt from the "
              "mutation log alone (never observed / listed after every mutation) on a full fingerprint; the whole step list shrinks as one value and replays without Hypothesis.",
              "All three circuits are read under the same override stack. A second part changes the values behind DynamicDurationStrategy callables between two questions; that is an open known finding (known_findings.json: C03-dynamic-duration-change-not-seen-by-memo), attributed only when its signature holds.",
              "DESIGN.md section 4 / C03"),
    "C04": _c("generated build programs biased to off-leaf spans; validity predicate duration == span of listed content",
              "Exploration: " + PROGRAMS + " with ~70 % explicit relations so that the latest end / earliest start often sit on non-leaf / non-first operations; "
              "for the circuit and every sub-circuit the reported duration must equal max end - min start over the operations it lists, 0 when empty, and "
              "followers of a block may not start before the block's content has ended.",
              "Takes reported start/end times at face value (their correctness is C01).",
              "DESIGN.md section 4 / C04"),
    "C05": _c("per-class generated copy(lookup) round-trips + generated programs copied explicitly/implicitly, then mutated (metamorphic independence)",
              "Exploration: all 26 copy() implementations are exercised with generated field values, every relation type and lookup shape; whole programs are "
              "copied through circuit_structure.copy() and add(sub) and compared position by position (signatures, relative schedule, re-pointed relations, "
              "no shared objects); one side is then mutated (add / unroll / flatten) and the other side's fingerprint must not change.",
              "Field-wise comparison uses the public attributes of each class; duration strategies are compared by behaviour under two global settings and a registry change.",
              "DESIGN.md section 4 / C05"),
    "C06": _c("generated programs with counts at every level vs unrolled reference model; metamorphic n*T; idempotence; library n-fold concatenation",
              "Exploration: " + PROGRAMS + " with repetition counts 1..4 at every level (fixed and registry-provided, also the top circuit); after apply_modifiers() "
              "the signature multiset, the structural correspondence, the schedule (vs the unrolled model), untouched outside operations, reset counts and "
              "idempotence are checked; flat blocks ending on a leaf must last n x T; library circuits must list the exact n-fold concatenation.",
              "Copy start times are compared with the model only when the deciding leaf belongs to the newest copy (otherwise the statement leaves the leaf set open); measured frequency of that exclusion is reported under notes.",
              "DESIGN.md section 4 / C06"),
    "C07": _c("generated measurement-rich programs with nested registries and counts; rank oracle over the listing; Stim record order",
              "Exploration: programs with ~50 % measurements on <= 5 qubits, 3 tags, registries of the own circuit or any ancestor, counts at every level; after "
              "apply_modifiers() circuit-level and per-qubit indices must be the ranks in listing order, both index filters exact, the exported measurement "
              "record in the same order, never -1, indices increasing with time where claimed, and a measurement added after unrolling indexed last; library circuits too.",
              "Indices are only claimed for modifier-applied circuits; a measurement's registry is its circuit's or an ancestor's (how the library uses registries). The time-order clause has an open known finding (C07-depth-based-placement-index-before-time: the placement rule itself), attributed only when the schedule equals the reference model's.",
              "DESIGN.md section 4 / C07"),
    "C08": _c("generated programs over supported / unsupported / annotation kinds vs independent translation table validated against stim unitaries",
              "Exploration: the export (REPEAT blocks expanded by the check, fused targets split) must equal the listing translated one by one by an oracle table whose "
              "gate names are validated once per run against stim.gate_data unitaries / flags; all five detector target shapes generated; multiset and "
              "measurement count equal before / after unrolling; library circuits export the identical expanded program.",
              "Detector / observable target formulas are a transcription of the documented shapes (their physical meaning is C09); the listing itself is C02.",
              "DESIGN.md section 4 / C08"),
    "C09": _c("enumerated + generated constructor inputs vs classical bit-level protocol simulation; stim sampling / DEM determinism",
              "Exploration: small sizes enumerated completely (d <= 3 quick / <= 4 thorough x all data and ancilla states x cycles), larger ones and Surface-17 sub-chains "
              "sampled; the exported circuit is sampled with stim and every measurement must equal an independent bit-level model of the protocol; detector / "
              "observable counts, determinism (detector_error_model, detector sampler) and the built / unrolled / flattened variants are checked.",
              "For computational-basis inputs an off-by-one detector offset that stays in range remains deterministic and is therefore not detectable here (stated in the module's ASSUMPTIONS).",
              "DESIGN.md section 4 / C09"),
    "C10": _c("enumerated duration grid + generated constructor inputs under global-duration overrides; pairwise channel-overlap validity predicate",
              "Exploration: all {0.5,1,2,3}^4 duration settings for one circuit plus generated (constructor, distance, states, cycles, durations) inputs for the four "
              "library constructors, as built and unrolled; any two non-zero operations sharing a channel (own matching rule) must not overlap and nothing may overlap a barrier on its qubits.",
              "Circuits are built and read inside one duration override; one recorded open finding (simplified constructor without refocusing) is excluded by a narrow signature and counted.",
              "DESIGN.md section 4 / C10"),
    "C11": _c("generated nested programs (multiset / no-sub-circuit / idempotence invariants) + library circuits (before/after differential)",
              "Exploration: implicitly sequenced and explicitly related nested programs must keep the signature multiset, contain no sub-circuit afterwards and be "
              "unchanged by a second flatten(); modifier-applied library circuits (repetition code, simplified, multi-round, calibration) must keep listing order, "
              "schedule, duration, acquisition indices (all filters) and Stim text.",
              "Order / schedule preservation is asserted for library circuits only, as the property states.",
              "DESIGN.md section 4 / C11"),
    "C12": _c("exhaustive small experiment descriptions + generated ones; algebraic tiling / disjointness / translation invariants",
              "Exploration: all ordered lists of 1..3 distinct counts from {0..3} x flags x repetitions enumerated, larger descriptions and direct kernel chains generated; "
              "contiguity, lengths summing to the cycle, categories inside their kernel and pairwise disjoint, ancilla coverage minus the documented slot, "
              "unknown ids empty, repetition translates and the repetition estimate are checked.",
              "No model of the offsets is used: only the invariants the property states.",
              "DESIGN.md section 4 / C12"),
    "C13": _c("differential between the multi-round circuit's tagged acquisition indices and the experiment index kernel",
              "Exploration: d=2 grid enumerated, larger (rounds list, distance, states, description) inputs generated; per ancilla the circuit's heralded / parity / final "
              "indices must equal the kernel's heralded / stabilizer+projected / calibration indices with the documented 0-round exception, block by block.",
              "Both sides are library code: agreement is what the property claims; each side alone is C07 / C12.",
              "DESIGN.md section 4 / C13"),
    "C14": _c("generated Stim circuits x noise settings x index maps; strip-noise round-trip + independent T1/T2 formula",
              "Exploration: instruction-list circuits (all exported gate names, REPEAT nesting, valid record lookbacks), library exports and single-gate blocks are dressed with "
              "generated default / per-qubit settings and maps; stripping the noise must give back the flattened input, probabilities must be valid, measurement "
              "arguments must equal the configured assignment errors and every idle channel must equal an independent evaluation of the T1/T2 formula.",
              "Stim's flattened() and gate_data are trusted; tolerance 1e-9 relative.",
              "DESIGN.md section 4 / C14"),
    "C15": _c("generated programs exported against a recording OpenQL platform (test double) + real OpenQL compile cross-check",
              "Exploration: the exporter runs against a recording platform that logs kernel / program calls and rejects duplicate kernel names like OpenQL; the executed "
              "instruction sequence must equal the listing translated by an independent table with sub-circuits expanded in place count times; names must be "
              "reproducible; a subset is compiled by the real OpenQL and the written cQASM parsed and compared, which also validates the double.",
              "Wait durations are integers; the top circuit's own count is not exported.",
              "DESIGN.md section 4 / C15"),
    "C16": _c("exhaustive enumeration of edge subsets (<= 3 quick, <= 4 thorough) + generated larger subsets vs independent Surface-17 frequency oracle",
              "Exploration with an exhaustive core: every non-empty subset of up to 3 (quick) / 4 (thorough) of the 24 edges is judged by an independent device table "
              "(own qubit / edge / frequency-level transcription) for acceptance, and every idle qubit of each qubit-disjoint subset for parking; larger subsets and "
              "sequence-generator requests are generated; every emitted sequence must use each gate once and only accepted steps.",
              "The device table (vcheck/device.py) is validated against the library's public qubit / edge listing once per run (mismatch = harness error).",
              "DESIGN.md section 4 / C16"),
    "C17": _c("enumeration of shipped layouts and contiguous sub-chains + generated subsets / exclusions vs independent device oracle",
              "Exploration: the four shipped layouts, every contiguous window of each chain, generated subsets / orderings / index maps and composite descriptions with "
              "exclusions are checked layer by layer: gates are device edges on distinct qubits, parked and gated disjoint, required parking present (C16 oracle), each "
              "parity-group edge exactly once, derived gates = layout gates with both qubits involved, index maps bijective and consistent.",
              "Extra parks and acceptance of a whole layer are not judged (not claimed).",
              "DESIGN.md section 4 / C17"),
    "C18": _c("generated programs x channel orders x label maps x duration contexts; placement oracle from the reference scheduler; before/after + twin differential for side effects",
              "Exploration: programs over the 23 drawable kinds (and all 26 for no-raise / no-side-effect), built and unrolled, are drawn with generated channel orders "
              "(permutations, prefixes, unknown ids), label maps, compact / full mode and outer global-duration overrides; the description plot_circuit really builds "
              "is intercepted and its rows, labels, width and the multiset of (left edge, rows) of the draw components are compared with start times computed by the "
              "reference model under the drawing's durations; the circuit's fingerprint must be unchanged (vs before and vs a never-plotted twin), the duration lookup restored, unknown ids rejected, no figure leaked.",
              "Artists are built but not rasterised; kinds the drawing silently skips (generic two-qubit operations) are only checked for no-raise / no-side-effect.",
              "DESIGN.md section 4 / C18"),
    "C19": _c(
        "exhaustive enumeration of the 36x36 channel-identifier grid + Hypothesis pairs/triples/sequences against a transcribed matching oracle",
        "Exploration: the finite grid of channel identifiers (9 qubit ids x 4 channels, all ordered pairs) is enumerated completely; "
        "triples, edge/qubit identifier pairs (small name alphabet, foreign operands) and sequences for unique_in_order are Hypothesis-generated "
        "and compared with an independent oracle (same qubit and same-or-ALL channel; unordered pair; first occurrences by identity). "
        "Cheap pure functions, so thousands of cases per run are the right level.",
        "Trusts the oracle transcribed from the property statement; degenerate edges (both ends equal) are outside the equality claim.",
        "DESIGN.md section 4 / C19",
    ),
}
CLAIMED = {k: v for k, v in CLAIMED.items() if v is not None}

NOT_YET = "check not built yet in this session (planned in DESIGN.md section 4); will be claimed once its check is registered"


def main():
    props = [json.loads(l) for l in open(os.path.join(HERE, "properties.jsonl")) if l.strip()]
    checks, na = [], []
    for p in props:
        pid = p["id"]
        if pid in CLAIMED:
            tech, text, note, ref = CLAIMED[pid]
            checks.append({
                "property_id": pid,
                "quick_cmd": f"{PY} -m vcheck.run {pid} --tier quick",
                "thorough_cmd": f"{PY} -m vcheck.run {pid} --tier thorough",
                "evidence_file": f"/verif/evidence/{pid}.json",
                "replay_cmd_template": f"{PY} -m vcheck.run {pid} --replay {{path}}",
                "engine": "vcheck",
                "level_claimed": {"category": "exploration", "text": text, "design_ref": ref},
                "level_note": note,
                "technique": tech,
            })
        else:
            na.append({"property_id": pid, "reason": NOT_YET})
    manifest = {
        "version": 1,
        "setup_cmd": f"{PY} -m vcheck.setup",
        "hooks": {
            "guard": "QCOCIRCUITS_VERIF",
            "enable": "checks set QCOCIRCUITS_VERIF=1 and import /repo/src directly (pure Python, nothing to build); "
                      "no source hooks were needed - all observation points are public API",
            "baseline_off_cmd": "cd /repo && env -u QCOCIRCUITS_VERIF /venv/bin/python -m pytest -ra -q -p no:cacheprovider --timeout=900 --continue-on-collection-errors",
            "source_commits": [],
            "add_only": True,
        },
        "engines": [{
            "name": "vcheck",
            "path": "/verif/vcheck",
            "serves_properties": sorted(CLAIMED),
            "kind_free_text": "Hypothesis 6.168 property-based testing (generated build programs, histories, constructor inputs) and "
                              "complete enumeration of small finite domains, against explicit oracles (independent reference model, "
                              "differential / metamorphic relations, round-trips, validity predicates); failures shrink to JSON replay files",
        }],
        "checks": checks,
        "notes": "All checks: exit 0 held / exit 1 + VIOLATION line / exit 2 harness error. VERIF_SEED seeds Hypothesis; "
                 "VERIF_REPO may point the checks at another tree (default /repo). Known findings: /verif/known_findings.json.",
        "not_applicable": na,
    }
    with open(os.path.join(HERE, "MANIFEST.json"), "w") as f:
        json.dump(manifest, f, indent=1)
    print(f"MANIFEST.json: {len(checks)} checks, {len(na)} not claimed")


if __name__ == "__main__":
    main()
