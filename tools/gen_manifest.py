#!/usr/bin/env python3
"""Regenerate /verif/MANIFEST.json from the table below (keeps it schema-valid at all times)."""
import json
import os

HERE = os.path.dirname(os.path.dirname(os.path.abspath(__file__)))
PY = "/venv/bin/python"

# id -> (technique, level text, level note, design ref)
CLAIMED = {
    "C19": (
        "exhaustive enumeration of the 36x36 channel-identifier grid + Hypothesis pairs/triples/sequences against a transcribed matching oracle",
        "Exploration: the finite grid of channel identifiers (9 qubit ids x 4 channels, all ordered pairs) is enumerated completely; "
        "triples, edge/qubit identifier pairs (small name alphabet, foreign operands) and sequences for unique_in_order are Hypothesis-generated "
        "and compared with an independent oracle (same qubit and same-or-ALL channel; unordered pair; first occurrences by identity). "
        "Cheap pure functions, so thousands of cases per run are the right level.",
        "Trusts the oracle transcribed from the property statement; degenerate edges (both ends equal) are outside the equality claim.",
        "DESIGN.md section 4 / C19",
    ),
}

NOT_YET = "check not built yet in this session (planned in DESIGN.md section 4); will be claimed once its check is registered"


def main():
    props = [json.loads(l) for l in open(os.path.join(HERE, "properties.jsonl")) if l.strip()]
    checks, na = [], []
    for p in props:
        pid = p["id"]
        if pid in CLAIMED:
            tech, text, note, ref = CLAIMED[pid]
            checks.append({
                "property_id": pid,
                "quick_cmd": f"{PY} -m vcheck.run {pid} --tier quick",
                "thorough_cmd": f"{PY} -m vcheck.run {pid} --tier thorough",
                "evidence_file": f"/verif/evidence/{pid}.json",
                "replay_cmd_template": f"{PY} -m vcheck.run {pid} --replay {{path}}",
                "engine": "vcheck",
                "level_claimed": {"category": "exploration", "text": text, "design_ref": ref},
                "level_note": note,
                "technique": tech,
            })
        else:
            na.append({"property_id": pid, "reason": NOT_YET})
    manifest = {
        "version": 1,
        "setup_cmd": f"{PY} -m vcheck.setup",
        "hooks": {
            "guard": "QCOCIRCUITS_VERIF",
            "enable": "checks set QCOCIRCUITS_VERIF=1 and import /repo/src directly (pure Python, nothing to build); "
                      "no source hooks were needed - all observation points are public API",
            "baseline_off_cmd": "cd /repo && env -u QCOCIRCUITS_VERIF /venv/bin/python -m pytest -ra -q -p no:cacheprovider --timeout=900 --continue-on-collection-errors",
            "source_commits": [],
            "add_only": True,
        },
        "engines": [{
            "name": "vcheck",
            "path": "/verif/vcheck",
            "serves_properties": sorted(CLAIMED),
            "kind_free_text": "Hypothesis 6.168 property-based testing (generated build programs, histories, constructor inputs) and "
                              "complete enumeration of small finite domains, against explicit oracles (independent reference model, "
                              "differential / metamorphic relations, round-trips, validity predicates); failures shrink to JSON replay files",
        }],
        "checks": checks,
        "notes": "All checks: exit 0 held / exit 1 + VIOLATION line / exit 2 harness error. VERIF_SEED seeds Hypothesis; "
                 "VERIF_REPO may point the checks at another tree (default /repo). Known findings: /verif/known_findings.json.",
        "not_applicable": na,
    }
    with open(os.path.join(HERE, "MANIFEST.json"), "w") as f:
        json.dump(manifest, f, indent=1)
    print(f"MANIFEST.json: {len(checks)} checks, {len(na)} not claimed")


if __name__ == "__main__":
    main()
